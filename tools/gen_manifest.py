#!/usr/bin/env python3
"""Regenerates /verif/MANIFEST.json from the table below (single source)."""
import json, os, subprocess
HERE = os.path.dirname(os.path.dirname(os.path.abspath(__file__)))
ALL = [json.loads(l)['id'] for l in open(os.path.join(HERE, 'properties.jsonl'))]

# id -> (technique, level text, level note, design ref)
CHECKS = {
 'C17': ('property-based testing (Hypothesis) of the arithmetic laws + exhaustive 4/8-bit code round trip',
         'Generated-input search: (min,max,bits,symmetry,dtype,shape) over the whole finite float32/float64 range incl. degenerate/huge/tiny, random tensors of rank 0..4 with any quantized dimension, every 4/8-bit code against a grid of library-produced parameters; explicit oracles (range, zero representable, coverage, half-step round trip, monotonicity, channel independence, code identity). Held on all cases explored; not a proof.',
         'Trusts numpy float semantics and an independent float64 dequantizer; tolerance half a step + 1% of a step for float32 rounding.', 'DESIGN.md 4 C17'),
}
CHECKS['C11'] = ('exhaustive enumeration of short add-histories + Hypothesis-generated add/load histories, compared with a reference resolver',
  'Model-based testing against an independent reference resolver: all add-histories up to length 2 (quick) / 3 (thorough) over a 5x4x6 alphabet enumerated completely, plus generated histories up to 30 steps (add with enum- or string-valued arguments, load of rule lists, load of the exported recipe), queried on a 6x8 (operator, scope) grid after every step; refused adds must raise ValueError and leave the state unchanged. Exhaustive only within the stated alphabet and length bound.',
  'The support predicate is taken from the library (check_op_quantization_config); Python re semantics trusted.', 'DESIGN.md 4 C11')
PIPE = 'Hypothesis-generated float models (DAGs over the 21 supported + 7 unsupported op kinds, multi-consumer tensors, repeated operands, hub tensors with >= 9 consumer slots, exported-and-consumed tensors, tensors listed twice in the outputs, arguments returned unchanged, shared constants/buffers, 1..3 subgraphs incl. operator-less ones, signature entries and signature list in another order than the subgraphs, dynamic batch signatures, random valid op order) built directly as flatbuffers and handed over as a mutable bytearray, crossed with shipped recipes or generated rule sequences (incl. sharer-directed treatments) and calibration inputs (also batched, or collected under the other weight granularity), optionally after earlier uses of the same Quantizer object, pushed through the public Quantizer API; '
CHECKS['C01'] = ('property-based testing: generated model x recipe x data, structural well-formedness oracle + LiteRT interpreter load/invoke',
  PIPE + 'every returned model is raw-parsed and checked for index ranges, unique names, single producers, execution order, graph I/O and signature entries, then allocated and invoked per signature in the interpreter. Held on all explored cases; no absence claim.',
  'Trusts the flatbuffer schema classes and the LiteRT interpreter; the interpreter clause is skipped for skip_checks recipes; a worker killed by a signal while running a case is reported as a violation.', 'DESIGN.md 4 C01')
CHECKS['C02'] = ('property-based testing: generated model x recipe, graph-skeleton isomorphism oracle (delete inserted Q/DQ, alias classes)',
  PIPE + 'the result is matched against the source: same ops/options/arity in order, every operand resolving through inserted-op alias classes to the same original tensor, original tensors unchanged in name/shape, graph inputs/outputs and signature entries denoting the same positions, I/O dtype float32 unless the reference resolver says a rule covers INPUT/OUTPUT, source bytes untouched.',
  'Original tensors are identified by index (new tensors are appended); the support predicate of the reference resolver is the library\'s.', 'DESIGN.md 4 C02')
CHECKS['C03'] = ('property-based testing: per-operand dtype/constant oracle from a reference resolver + mode table',
  PIPE + 'for every operand of every original operator the dtype seen by the operator (and, for untouched operands, the constant bytes) is compared with what the reference resolution (last-applicable-rule) and the mode table (none / weight-only / fp16 / dynamic-range / static-range) predict; inserted Q/DQ ops must convert between quantized and float types.',
  'Operand roles come from an independently written op table; recipes with skip_checks are excluded; the support predicate is the library\'s.', 'DESIGN.md 4 C03')
CHECKS['C08'] = ('property-based testing: shipped recipes x generated graphs with all interaction features, totality oracle (no exception)',
  'The six shipped recipes, loaded unchanged (calibrated when they need it), are applied to generated float models with shared inputs, concatenations of shared tensors, squares, unsupported ops in between, exported intermediates, re-used and de-duplicated constants; any exception from calibrate()/quantize() is a violation. One open known finding (a constant needed with different parameters is rejected) is matched structurally and counted.',
  'Input domain: converter normal form with model-wide unique names; generated graphs of <= 8 (quick) / 12 (thorough) nodes.', 'DESIGN.md 4 C08')
CHECKS['C10'] = ('property-based testing: regex alphabet built from the model\'s tensor names; calibration key set vs reference resolution; missing-statistics exceptions; per-operand mode oracle',
  'Generated single- and multi-signature models x rule sequences over the full regex alphabet (anchored, ";"-separated, prefixes, full names) x mostly static configs; every signature is calibrated in turn (resumed); the key set of the calibration result must equal the operand names of the ops the reference resolver selects under the quantization-side scope encoding, calibrate()/quantize() must not fail for missing statistics, and the ops quantized in the output must be exactly the selected ones (C03 oracle).',
  'Reference resolver uses the library\'s support predicate; skip_checks excluded.', 'DESIGN.md 4 C10')
CHECKS['C05'] = ('property-based testing: independent storage-format decoder, element-wise half-step/one-step bound on every rewritten constant',
  'Generated graphs over the constant-carrying ops with adversarial constant data (constant, one-sided, outliers, zeros, tiny, huge, tie grids, odd element counts) under every accepted weight/static/fp16 config; each rewritten constant of the output is length-checked, decoded (int4 low nibble first) and dequantized with its own stored parameters by code that shares nothing with the library, and compared element-wise with the float original (half a step symmetric / one step asymmetric; fp16 bit-exact; bias = round(bias/scale)).',
  'Tolerance 1e-5 relative + float32 rounding; symmetry of a tensor\'s config is taken from the reference resolution.', 'DESIGN.md 4 C05')
CHECKS['C06'] = ('property-based testing with a differential oracle: interpreter run of the quantized model vs a check-built reference program, end to end and operator by operator',
  'Generated models x weight-only / fp16 / dynamic-range recipes x random inputs: (i) for graphs without dynamic-range ops the outputs must equal, to float32 rounding, those of a reference program the check builds from the SOURCE spec with every rewritten constant replaced by its independently decoded and dequantized value; (ii) every original operator is re-executed as a single-op float model on exactly the inputs it saw inside the quantized model: float ops must agree to rounding, dynamic-range ops within the analytic bound max|x|/254 * max_j sum_k|w_jk|; inserted DEQUANTIZE outputs must equal the decoded constants. Two open findings (accepted configs the runtime mis-executes) are matched structurally.',
  'LiteRT float kernels define the op semantics; the bound assumes symmetric per-batch 8-bit activation quantization in the hybrid kernels.', 'DESIGN.md 4 C06')
CHECKS['C16'] = ('property-based testing with a differential oracle: the same case serialized by both paths (guarded threshold hook), raw flatbuffer parse, byte-level comparison, interpreter outputs',
  'Every generated (model, recipe) case is quantized twice through the public API, once normally and once with the guarded hook forcing the external-buffer serializer; both results are raw-parsed (offset/size preserved): all fields must be equal except buffer data/offset/size, every external range must be 16-byte aligned, in bounds, pairwise disjoint, outside the flatbuffer proper (the prefix up to the first external byte parses to the same model) and byte-equal to the embedded data; both forms must load in the interpreter and give bit-identical outputs.',
  'The real > 2 GB sizes are not exercised, only the code path; interpreter trusted.', 'DESIGN.md 4 C16')
CHECKS['C12'] = ('property-based testing: generated update/load histories, JSON round-trip oracle (equal recipe, equal resolution grid, byte-identical quantize output, save() contents) + enumeration of shipped recipe files',
  'Recipes reachable by generated update/load sequences (all algorithms, skip_checks, enum- or string-valued arguments, default config, no_quantize rules with a config) are exported, passed through json.dumps/loads and loaded into a fresh Quantizer: the exported recipes must be equal, resolve identically on a 6x8 (operator, scope) grid, and quantize a generated model with the same statistics to byte-identical output; save() must write exactly that JSON and model. Every file under recipes/ must load and the default files must re-export to themselves (complete enumeration).',
  'Recipe equality is judged on the JSON level (what save() writes).', 'DESIGN.md 4 C12')
CHECKS['C14'] = ('property-based testing over generated call histories (sequence generation with shrinking), snapshot-equality and fresh-instance / fresh-process differential oracles',
  'Generated histories of recipe (shipped, update calls, or a caller-owned list of dicts; optionally a blockwise rule) / single update on top of a used recipe / calibrate (optionally resumed) / quantize (with the SHARED calibration result object) / validate calls on one or two Quantizer objects over a generated model handed over as one mutable bytearray; plus a phase in which a model file is quantized by path, a same-size variant is written to the same or another path and quantized by path, and both must equal Quantizer(bytes): after every call each caller-owned object (model bytes, recipe list passed in, calibration data, previous result, calibration result, test data) must be deep-equal (numpy-aware: dtype, shape, values, key order) to its snapshot; every quantize() output must have the sha256 of a fresh Quantizer given deep copies of the same arguments; a sample of triples is re-executed in fresh processes under PYTHONHASHSEED 1 and 12345.',
  'load_config_policy excluded from the alphabet; fresh-process comparison is sampled (1/32 quick, 1/12 thorough of the cases that quantize).', 'DESIGN.md 4 C14')
CHECKS['C09'] = ('property-based testing: datasets x resume splits, reference statistics recomputed from the check\'s own interpreter run and moving-average fold',
  'Generated models (1..2 signatures; a fifth with a stateful SVDF operator) x calibration-requiring recipes x datasets of 1..6 samples of different magnitudes, passed as list, one-shot iterator or generator, x drawn cut points: every runtime statistic returned by calibrate() must equal (rtol 1e-5) the 0.95 moving average, in dataset order with the first sample initialising, of the per-sample min/max the check reads from its own float interpreter; every constant statistic must be a true per-tensor or single-axis min/max (the kernel axis for channel-wise weights); calibrating in resumed sessions must equal the single pass (rtol 1e-6) and leave the previous result deep-equal to its snapshot.',
  'LiteRT float interpreter with preserved tensors trusted; EMA recomputed in float64.', 'DESIGN.md 4 C09')
CHECKS['C15'] = ('property-based testing: sharing-biased model generator, byte-level buffer/tensor consistency oracle + per-operand mode oracle',
  'Generated models built around sharing (one constant tensor with several consumers, several tensors on one buffer within and across subgraphs, converter-style de-duplication) x recipes giving the sharers equal, different or no quantization: quantize() may raise; if it returns, every tensor referencing a buffer must have a dtype whose implied byte length equals the buffer length and equal parameters, every original constant must still denote its values within one step (bit-equal when untouched), and every consumer must read the operand class its mode prescribes (C03 oracle), so a float consumer never reads integer bytes and vice versa.',
  'Rejections are counted per exception bucket, not judged (totality is C08).', 'DESIGN.md 4 C15')
CHECKS['C19'] = ('property-based testing with a differential oracle: multi-subgraph model vs the stand-alone single-subgraph models built from the same spec, same recipe, same merged statistics',
  'Generated models with 2..3 subgraphs (independent, sharing constant buffers, structurally equal twins with renamed tensors) are quantized as a whole and subgraph by subgraph (stand-alone models built from the same spec) with the same recipe and the same merged statistics; subgraph i of the multi result must equal subgraph 0 of the stand-alone result in tensors (names, shapes, dtypes, scales, zero points, quantized dimension, decoded constant bytes), operators (kind, wiring, options), graph inputs/outputs and signature entries; a rejection of one side only is a violation unless constants are shared across subgraphs.',
  'Buffer/opcode indices compared through what they denote; statistics come from calibrating the stand-alone models.', 'DESIGN.md 4 C19')
CHECKS['C18'] = ('property-based testing: validate()/compare_model vs an independently recomputed per-tensor metric from the check\'s own interpreter pairs; metric laws on generated arrays',
  'Generated models x recipes x 1..3 test samples per signature x both metrics: the four groups returned by validate() (or compare_model(float, float)) must contain exactly the tensor names present in both models\' main subgraph, each once, filed under inputs/outputs/constants/intermediates as the float model defines them, with values equal (rtol 1e-5) to the metric the check computes from its own two interpreter runs with its own dequantization, averaged over samples; self-comparison must be exactly 0; generated array pairs (incl. NaN/inf) check non-negativity, zero on equal arguments, MSE symmetry and the documented sanitising.',
  'Interpreter-created temporaries (e.g. BatchMatMul_scratch_buffer) are outside the property and ignored; inputs are quantized with the convention validate() uses.', 'DESIGN.md 4 C18')
CHECKS['C07'] = ('property-based testing with a differential numeric oracle: float vs full-integer interpreter runs on the calibration input, stated error bound',
  'Generated float models of depth <= 6 x every static-range config the policy accepts (as a "*" rule or per-op rules, including INPUT/OUTPUT quantization) x one calibration input that is also the test input: the dequantized outputs of the quantized model must stay within 4 output steps + phi*A of the float outputs (A = largest float activation; phi = 0.06 a8w8, 0.04 a16w8, 0.5 w4, at least 3x the largest error measured on the unchanged tree) and be finite; constant or entirely saturated outputs are reported as such when the bound is exceeded. One open finding (static BATCH_MATMUL with constant operand and CHANNELWISE weights gives garbage) is matched structurally.',
  'The bound is a magnitude statement, not tight: parameter errors below ~1% are C04\'s subject. Constants are drawn without outliers.', 'DESIGN.md 4 C07')
CHECKS['C13'] = ('exhaustive enumeration of the finite (selector x config x algorithm) lattice + generated single-op models per accepted pair run through the pipeline and the interpreter with the C06/C07 numeric oracles',
  'The whole lattice (25 selectors x 500 configs x 2 algorithms = 24 000 combinations) is enumerated: construction failures and refused specific-op updates must be ValueError and leave the recipe unchanged, the same pairs must resolve to no_quantize under "*" and accepted ones to the rule, accepted configs must have an execution mode; then for EVERY accepted pair k generated single-op models (k=3 quick, 24 thorough) are quantized with the pair as a specific-op rule or under "*", must quantize, prepare and invoke in the interpreter, and must satisfy exactly the C06 (float-compute) or C07 (static) numeric bound. Exhaustive over the lattice; sampled over models. Four open findings are matched structurally.',
  'Default policy only; skip_checks excluded; numeric soundness is held to the C06/C07 bounds, never stricter.', 'DESIGN.md 4 C13')
CHECKS['C04'] = ('property-based testing: independent re-derivation of every quantization parameter (reference formulas + effective-statistics propagation) compared per operand',
  'Generated models x static and weight-quantizing recipes x statistics that are check-constructed for every runtime tensor (incl. degenerate, tiny and huge ranges) or come from calibrate(): for every quantized operand of every original operator (matched through the skeleton), and for graph inputs/outputs under INPUT/OUTPUT rules, the stored (scale, zero point, quantized dimension, bit width) must equal a float64 re-derivation: min/max formulas with zero inclusion and minimum range, true per-tensor/per-channel min/max for constants along the kernel axis, bias = input scale x weight scale with zero point 0, same-scale ops handing on their input\'s parameters and statistics, concatenation imposing its output\'s, fixed kernel ranges for softmax/logistic/tanh; every quantized tensor must have finite positive scales, in-range zero points of equal length, per-channel only on weights/biases.',
  'Tolerances: scale rtol 3e-6 (float32 storage), zero point +-1 only within 2e-3 of a rounding tie; calibrate() output taken as given (C09); shared constants with several consumers are not judged (C15).', 'DESIGN.md 4 C04')
NOT_APPLICABLE = {}

def main():
  hooks_commits = []
  p = os.path.join(HERE, 'hooks_commits.txt')
  if os.path.exists(p):
    hooks_commits = [l.strip() for l in open(p) if l.strip()]
  m = {
   'version': 1,
   'setup_cmd': "/venv/bin/python -c 'import hypothesis' 2>/dev/null || /venv/bin/pip install --no-index --find-links /opt/veriftools/wheels hypothesis",
   'hooks': {
     'guard': 'AI_EDGE_QUANTIZER_VERIF',
     'enable': 'checks export AI_EDGE_QUANTIZER_VERIF=1 themselves (./check); there is no build step, checks import /repo\'s working tree via PYTHONPATH',
     'baseline_off_cmd': 'cd /repo && env -u AI_EDGE_QUANTIZER_VERIF /venv/bin/python -m pytest -ra -q -p no:cacheprovider --timeout=900 --continue-on-collection-errors',
     'source_commits': hooks_commits,
     'add_only': True},
   'engines': [{'name': 'vq', 'path': 'vq/', 'serves_properties': sorted(CHECKS),
                'kind_free_text': 'Hypothesis-driven generated-input search (sharded over 16 processes) against explicit oracles; shrunk failures become JSON replay files'}],
   'checks': [], 'not_applicable': [],
   'notes': 'Every check: ./check <ID> --tier quick|thorough ; replay: ./check <ID> --replay <file>. Exit 0 held / 1 VIOLATION / 2 harness error. Known findings: known_findings.json. See DESIGN.md.'}
  for pid in ALL:
    if pid in CHECKS:
      tech, text, note, ref = CHECKS[pid]
      m['checks'].append({
        'property_id': pid, 'quick_cmd': './check %s --tier quick' % pid,
        'thorough_cmd': './check %s --tier thorough' % pid,
        'evidence_file': 'evidence/%s.json' % pid,
        'replay_cmd_template': './check %s --replay {path}' % pid,
        'engine': 'vq',
        'level_claimed': {'category': 'exploration', 'text': text, 'design_ref': ref},
        'level_note': note, 'technique': tech})
    else:
      m['not_applicable'].append({'property_id': pid, 'reason': NOT_APPLICABLE.get(pid, 'check not built yet (work in progress, see DESIGN.md)')})
  json.dump(m, open(os.path.join(HERE, 'MANIFEST.json'), 'w'), indent=1)
  print('checks:', [c['property_id'] for c in m['checks']])
main()
