#!/bin/bash
# tools/run_seeds_fast.sh "<property ids>" [skip-regex] : re-runs the check of its own property against every
# seeded/<id>/ of the given properties (patch applied to a scratch copy; baseline and demonstration were
# confirmed when the seed was taken and are not repeated). One row per seed.
HERE="$(cd "$(dirname "$0")/.." && pwd)"; PROPS=" $1 "; SKIP="${2:-^$}"
for d in "$HERE"/seeded/*/; do
  id=$(basename "$d"); prop=${id:0:3}
  [[ "$PROPS" != *" $prop "* ]] && continue
  [[ "$id" =~ $SKIP ]] && continue
  SCR="$(mktemp -d /tmp/vqseedf.XXXXXX)"
  rsync -a --exclude .git --exclude '*.egg-info' /repo/ "$SCR/mut/"
  if ! (cd "$SCR/mut" && patch -p1 -s < "$d/patch.diff" >/dev/null 2>&1); then echo "| $id | patch failed |"; rm -rf "$SCR"; continue; fi
  OUT=$(VERIF_REPO="$SCR/mut" VERIF_OUT="$SCR/out" "$HERE/check" "$prop" --tier quick 2>&1); rc=$?
  echo "| $id | $prop rc=$rc | $(echo "$OUT" | grep -B1 VIOLATION | grep -v "VIOLATION\|^--" | head -1 | cut -c1-120) |"
  rm -rf "$SCR"
done
