#!/venv/bin/python
"""Runs the repository's pinned test suite (guard off) and compares the set of
passing tests with BASELINE.json's stable_pass. Exit 0 iff every stable_pass
test still passes."""
import json, os, subprocess, sys, tempfile
import xml.etree.ElementTree as ET
repo = sys.argv[1] if len(sys.argv) > 1 else '/repo'
base = json.load(open('/root/.vp/BASELINE.json'))
fd, xml = tempfile.mkstemp(suffix='.xml'); os.close(fd)
env = dict(os.environ); env.pop('AI_EDGE_QUANTIZER_VERIF', None); env.pop('PYTHONPATH', None)
subprocess.run(['/venv/bin/python', '-m', 'pytest', '-ra', '-q', '-p', 'no:cacheprovider', '--timeout=900',
                '--continue-on-collection-errors', '--junitxml=' + xml], cwd=repo, env=env,
               stdout=subprocess.DEVNULL, stderr=subprocess.DEVNULL)
passed = set()
for tc in ET.parse(xml).getroot().iter('testcase'):
  if not any(c.tag in ('failure', 'error', 'skipped') for c in tc):
    passed.add('%s::%s' % (tc.get('classname'), tc.get('name')))
os.remove(xml)
want = set(base['stable_pass'])
missing = sorted(want - passed)
print('stable_pass=%d passing_now=%d missing=%d' % (len(want), len(passed & want), len(missing)))
for m in missing[:20]:
  print('  MISSING', m)
sys.exit(1 if missing else 0)
