#!/bin/bash
# tools/run_seeds.sh [tier] [seed ids...] : re-evaluates every seeded/<id>/ against the check of its own property
# (and the other checks recorded as catching it); prints one row per seed.
HERE="$(cd "$(dirname "$0")/.." && pwd)"; TIER="${1:-quick}"; shift; ONLY=" $* "
for d in "$HERE"/seeded/*/; do
  id=$(basename "$d"); prop=${id:0:3}
  [ "$ONLY" != "  " ] && [[ "$ONLY" != *" $id "* ]] && continue
  ids=$(python3 -c "import json,sys;m=json.load(open('$d/meta.json'));c=m.get('caught_by_quick_checks',[]);print(','.join(dict.fromkeys(['$prop']+c)))")
  o=$("$HERE/tools/seed_eval.sh" "$d" "$ids" "$TIER" 2>&1)
  base=$(echo "$o" | grep -o "missing=[0-9]*" | head -1)
  verd=$(echo "$o" | grep "^== " | sed 's/== //' | tr '\n' ' ')
  echo "| $id | $base | $verd|"
done
