#!/venv/bin/python
"""tools/show.py <replay.json>: prints the case, the source model and (if quantize returns) the result."""
import json, os, sys
sys.path.insert(0, os.path.dirname(os.path.dirname(os.path.abspath(__file__))))
sys.path.insert(0, os.environ.get('VERIF_REPO', '/repo'))
os.environ.setdefault('TF_CPP_MIN_LOG_LEVEL', '3')
from vq import engine, fb
from vq.gen import graph as G
r = json.load(open(sys.argv[1]))
print(r.get('property'), r.get('phase'), r.get('tag')); print(r.get('message'))
case = r['spec']
if 'model' in case:
  print('recipe:', json.dumps(case['recipe']))
  print(fb.summarize(fb.parse(G.build(case['model']))))
  out = engine.run(case)
  print('stage', out.stage, 'exc', repr(out.exc)[:500])
  if out.ok:
    print(fb.summarize(fb.parse(out.qbytes)))
else:
  print(json.dumps(case, indent=1)[:4000])
