#!/bin/bash
# tools/mutate.sh <patch.diff> <ID>[,<ID>...] [tier] [--tests "<pytest args>"]
# Applies a patch to a scratch copy of /repo, (optionally) runs repo tests on it,
# runs the given checks against the copy, prints verdicts, removes the copy.
set -u
PATCH="$(readlink -f "$1")"; IDS="$2"; TIER="${3:-quick}"
HERE="$(cd "$(dirname "$0")/.." && pwd)"
SCR="$(mktemp -d /tmp/vqmut.XXXXXX)"
rsync -a --exclude .git --exclude '*.egg-info' /repo/ "$SCR/repo/"
if ! (cd "$SCR/repo" && patch -p1 -s < "$PATCH"); then echo "PATCH-FAILED $PATCH"; rm -rf "$SCR"; exit 3; fi
if [ "${4:-}" = "--tests" ]; then
  (cd "$SCR/repo" && env -u PYTHONPATH /venv/bin/python -m pytest -q -p no:cacheprovider -x ${5:-} 2>&1 | tail -3)
fi
RC=0
for ID in ${IDS//,/ }; do
  OUT=$(VERIF_REPO="$SCR/repo" VERIF_OUT="$SCR/out" "$HERE/check" "$ID" --tier "$TIER" 2>&1); rc=$?
  echo "== $ID rc=$rc $(basename "$PATCH")"
  echo "$OUT" | grep -E "VIOLATION|HARNESS|KNOWN" | head -5
  echo "$OUT" | grep -B1 "VIOLATION" | grep -v VIOLATION | head -3
  [ $rc -eq 1 ] || RC=1
done
rm -rf "$SCR"
exit $RC
