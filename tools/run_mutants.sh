#!/bin/bash
# tools/run_mutants.sh : runs every mutants/*.patch against the check named by its file-name prefix
# (plus extra checks listed in mutants/EXTRA), prints markdown table rows.
HERE="$(cd "$(dirname "$0")/.." && pwd)"
for P in "$HERE"/mutants/*.patch; do
  B=$(basename "$P" .patch); ID=${B%%-*}
  EXTRA=$(grep "^$B " "$HERE/mutants/EXTRA" 2>/dev/null | cut -d' ' -f2)
  IDS="$ID${EXTRA:+,$EXTRA}"
  OUT=$("$HERE/tools/mutate.sh" "$P" "$IDS" quick 2>&1)
  ROW="| $B |"
  for I in ${IDS//,/ }; do
    rc=$(echo "$OUT" | grep "^== $I rc=" | sed 's/.*rc=\([0-9]*\).*/\1/')
    case "$rc" in 1) R="caught";; 0) R="MISSED";; 3) R="patch failed";; *) R="error($rc)";; esac
    TAG=$(echo "$OUT" | awk "/^== $I rc=/{f=1;next} /^== /{f=0} f" | grep -v "VIOLATION\|KNOWN-FINDING\|^C[0-9]* tier\|^phase" | head -1 | sed 's/^ *//' | cut -d: -f1-2 | cut -c1-70)
    ROW="$ROW $I: $R${TAG:+ ($TAG)};"
  done
  echo "$ROW |"
done
