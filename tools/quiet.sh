#!/bin/bash
# tools/quiet.sh "<seeds>" [tier] [ids...] : runs checks at several seeds, writing to a scratch dir.
HERE="$(cd "$(dirname "$0")/.." && pwd)"; SEEDS="${1:-1 2 3}"; TIER="${2:-quick}"; shift; shift
IDS="${@:-C01 C02 C03 C04 C05 C06 C07 C08 C09 C10 C11 C12 C13 C14 C15 C16 C17 C18 C19}"
OUT="$(mktemp -d /tmp/vqquiet.XXXXXX)"
for s in $SEEDS; do for id in $IDS; do
  t0=$(date +%s); o=$(VERIF_SEED=$s VERIF_OUT="$OUT" "$HERE/check" $id --tier $TIER 2>&1); rc=$?
  echo "seed=$s $id rc=$rc $(( $(date +%s)-t0 ))s $(echo "$o" | grep -E "^C[0-9]+ tier" | sed 's/.*evaluations/evaluations/')"
  [ $rc -ne 0 ] && echo "$o" | grep -E -B1 "VIOLATION|HARNESS" | head -20
done; done
rm -rf "$OUT"
