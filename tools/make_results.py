#!/usr/bin/env python3
"""tools/make_results.py <mutant-sweep-log> [seed-sweep-log] : writes mutants/RESULTS.md from the sweep log rows and seeded/*/meta.json."""
import glob, json, os, re, sys
HERE = os.path.dirname(os.path.dirname(os.path.abspath(__file__)))
rows = [l.strip() for l in open(sys.argv[1]) if l.startswith('| ')] if len(sys.argv) > 1 else []
sweep = {}
if len(sys.argv) > 2:
  for l in open(sys.argv[2]):
    if l.startswith('| '):
      c = [x.strip() for x in l.strip().strip('|').split('|')]
      if len(c) >= 3:
        sweep[c[0]] = c[2].replace('rc=1', 'caught').replace('rc=0', 'not caught').replace('rc=2', 'harness error').replace('rc=3', 'patch failed')
out = ['# Sensitivity results', '',
       'All runs: quick tier, VERIF_SEED=1, against a scratch copy of /repo with one change applied',
       '(`tools/mutate.sh`, `tools/seed_eval.sh`). "caught" = the check exits 1 with a VIOLATION line.', '',
       '## Changes written by independent sub-agents (seeded/<id>/)', '',
       'Each sub-agent saw only the text of one property and a scratch worktree; every change was confirmed here:',
       'the patch applies to /repo HEAD, `tools/baseline_check.py` reports missing=0 on the patched tree, the',
       'demonstration exits 0 on the clean tree and non-zero on the patched tree. The "last sweep" column is the most recent',
       'run of the seed: the full sweep after round 8, replaced for C01 C02 C03 C07 C10 C11 C12 C14 (partly) C15 C18 C19 (partly) by the',
       're-run of the own check after the round-9 generator changes (tools/run_seeds_fast.sh), and the evaluation of each',
       'round-9 seed when it was taken. Four seeds that de-duplicate buffer_to_tensors (C01-r4 C03-r6 C07-r6 C15-r4) were',
       're-based after fix F23 touched that function (patch.original.diff keeps the author\'s diff).', '',
       '| change | property | caught by (quick) | last sweep (current machinery, seed 1) | what it is / what it needs |', '|---|---|---|---|---|']
metas = [(os.path.basename(os.path.dirname(p)), json.load(open(p)))
         for p in sorted(glob.glob(os.path.join(HERE, 'seeded', '*', 'meta.json')))]
n_all = len(metas)
n_obsolete = sum(1 for _, d in metas if d.get('obsolete'))
n_missed_first = sum(1 for _, d in metas if 'MISSED' in (d.get('verifier_note') or ''))
n_own = sum(1 for sid, d in metas if d.get('property', sid[:3]) in d.get('caught_by_quick_checks', []))
n_none = sum(1 for sid, d in metas if not d.get('caught_by_quick_checks') and not d.get('obsolete'))
out[-2:-2] = ['%d changes in %d rounds; %d were at first missed by the check of their own property (each such miss led to a '
              'generator or oracle extension recorded in the note and in DESIGN.md 10.1); with the current machinery %d are caught by '
              'the check of their own property, %d only by a neighbouring property, %d by none at quick tier, %d became obsolete through a later fix.' % (
                  n_all, max(int(d.get('round', 1)) for _, d in metas), n_missed_first, n_own,
                  n_all - n_own - n_obsolete - n_none, n_none, n_obsolete), '']
for sid, d in metas:
  out.append('| seeded/%s | %s | %s | %s | %s |' % (sid, d.get('property', sid[:3]), ', '.join(d.get('caught_by_quick_checks', [])) or ('obsolete' if d.get('obsolete') else 'MISSED'), sweep.get(sid, ''),
                                               (d.get('verifier_note') or d.get('summary', '')).replace('|', '/').replace('\n', ' ')))
out += ['', '## Hand-written mutants (mutants/*.patch)', '',
        'The first check named is the one the mutant was written for; further checks (mutants/EXTRA) show which',
        'neighbouring properties also see it. Expected misses are explained below the table.', '',
        '| mutant | verdicts |', '|---|---|']
for r in rows:
  r = re.sub(r'\(KNOWN-FINDING[^)]*\)', '', r)
  out.append(r)
out += ['', 'Expected misses (the property does not forbid the change, another property does):', '',
        '* `C02-rewire-all-consumers` is invisible to C02 by construction (C02 ignores dtypes and resolves operands through the inserted-op alias classes); C01 and C03 catch it.',
        '* `C04-asym-scale-over-qmax` (0.4 % scale error) is below the stated C07 allowance and does not break any C17 law; C04 catches it.',
        '* `C05-depthwise-qdim0`, `C05-swap-nibbles`, `C06-omit-quantized-dimension`: the stored bytes stay consistent with the stored parameters (or become undecodable), so only one of C05/C06 can see each; C04/C01 also catch two of them.',
        '* `C10-revert-F5-multisubgraph` is not C19\'s subject: C19 obtains statistics from the stand-alone models.', '']
open(os.path.join(HERE, 'mutants', 'RESULTS.md'), 'w').write('\n'.join(out) + '\n')
print('rows', len(rows))
