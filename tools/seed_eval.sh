#!/bin/bash
# tools/seed_eval.sh <dir with patch.diff demo.py> "<IDs>" [tier]
# Confirms a seeded change (patch applies to /repo HEAD, baseline passes, demo fails with / passes without),
# then runs the given checks against a scratch copy with the patch applied.
set -u
D="$(readlink -f "$1")"; IDS="$2"; TIER="${3:-quick}"
HERE="$(cd "$(dirname "$0")/.." && pwd)"
SCR="$(mktemp -d /tmp/vqseed.XXXXXX)"
rsync -a --exclude .git --exclude '*.egg-info' --exclude seed /repo/ "$SCR/clean/"
rsync -a "$SCR/clean/" "$SCR/mut/"
if ! (cd "$SCR/mut" && patch -p1 -s < "$D/patch.diff"); then echo "PATCH-FAILED"; rm -rf "$SCR"; exit 3; fi
echo "-- baseline on patched tree:"; "$HERE/tools/baseline_check.py" "$SCR/mut" | tail -3
echo "-- demo on clean tree:"; (cd "$SCR" && PYTHONPATH="$SCR/clean" TF_CPP_MIN_LOG_LEVEL=3 timeout 600 /venv/bin/python "$D/demo.py" >/tmp/vqseed_clean.log 2>&1; echo "rc=$?"; tail -2 /tmp/vqseed_clean.log)
echo "-- demo on patched tree:"; (cd "$SCR" && PYTHONPATH="$SCR/mut" TF_CPP_MIN_LOG_LEVEL=3 timeout 600 /venv/bin/python "$D/demo.py" >/tmp/vqseed_mut.log 2>&1; echo "rc=$?"; tail -3 /tmp/vqseed_mut.log)
for ID in ${IDS//,/ }; do
  OUT=$(VERIF_REPO="$SCR/mut" VERIF_OUT="$SCR/out" "$HERE/check" "$ID" --tier "$TIER" 2>&1); rc=$?
  echo "== $ID rc=$rc"
  echo "$OUT" | grep -E "VIOLATION|HARNESS" | head -4
  echo "$OUT" | grep -B1 "VIOLATION" | grep -v "VIOLATION\|^--" | cut -c1-300 | head -4
done
rm -rf "$SCR"
