#!/bin/bash
# tools/final_sweeps.sh : seed sweep then hand-mutant sweep (rows on stdout, prefixed)
HERE="$(cd "$(dirname "$0")/.." && pwd)"
echo "#### SEEDS"; "$HERE/tools/run_seeds.sh" quick
echo "#### MUTANTS"; "$HERE/tools/run_mutants.sh"
