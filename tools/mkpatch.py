#!/usr/bin/env python3
"""tools/mkpatch.py <repo-relative file> <out.patch> : reads OLD and NEW blocks from stdin
separated by a line '=====' and writes a unified diff against /repo's current file."""
import difflib, sys
rel, out = sys.argv[1], sys.argv[2]
old, new = sys.stdin.read().split('\n=====\n')
src = open('/repo/' + rel).read()
assert old in src, 'OLD block not found'
dst = src.replace(old, new.rstrip('\n') + ('\n' if old.endswith('\n') else ''), 1)
diff = difflib.unified_diff(src.splitlines(True), dst.splitlines(True), 'a/' + rel, 'b/' + rel)
open(out, 'w').writelines(diff)
print('wrote', out)
