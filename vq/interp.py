"""Thin LiteRT interpreter helpers (trusted base for numeric oracles)."""
import numpy as np
from ai_edge_litert import interpreter as tfl


def make(model_bytes, reference_kernels=False):
  it = tfl.Interpreter(
      model_content=bytes(model_bytes),
      experimental_op_resolver_type=(tfl.OpResolverType.BUILTIN_REF if reference_kernels else
                                     tfl.OpResolverType.BUILTIN_WITHOUT_DEFAULT_DELEGATES),
      experimental_preserve_all_tensors=True)
  it.allocate_tensors()
  return it


def run_signature(it, key, inputs):
  runner = it.get_signature_runner(key)
  return runner(**inputs), runner


def subgraph_index(runner):
  return runner._subgraph_index  # pylint: disable=protected-access


def all_tensors(it, sg_index=0):
  """name -> (raw ndarray, detail) for every named tensor of a subgraph."""
  out = {}
  for d in it.get_tensor_details(sg_index):
    if not d['name']:
      continue
    try:
      v = it.get_tensor(d['index'], sg_index)
    except ValueError:
      continue
    out[d['name']] = (v, d)
  return out


def dequant_detail(v, d):
  """float64 view of a tensor read from the interpreter."""
  qp = d['quantization_parameters']
  scales = np.asarray(qp['scales'], np.float64)
  if scales.size == 0:
    return np.asarray(v, np.float64)
  zps = np.asarray(qp['zero_points'], np.int64)
  q = np.asarray(v).astype(np.int64)
  if scales.size == 1:
    return (q - int(zps[0])) * float(scales[0])
  sh = [1] * q.ndim
  sh[qp['quantized_dimension']] = scales.size
  return (q - zps.reshape(sh)) * scales.reshape(sh)
