"""Structural predicates shared by the known-finding matchers of several properties."""
from vq.gen import graph as G
from vq.gen import recipes as R
from vq.ref import plan
from vq.ref.resolve import RefRecipe


def ref_recipe_from_case(case):
  if case['recipe']['kind'] == 'shipped':
    class _O:  # minimal outcome stand-in
      accepted = []
    return plan.ref_recipe(case, _O())
  ref = RefRecipe(plan.supported)
  for r in case['recipe']['rules']:
    try:
      cfg = R.make_config(r['cfg'])
    except ValueError:
      continue
    ref.add(r['regex'], r['op'], r['algo'], cfg)
  return ref


def resolved_ops(case):
  """[(subgraph index, node, OpPlan)] for every node of the case's model."""
  rp = plan.resolve_model(case['model'], ref_recipe_from_case(case))
  out = []
  for si, sg in enumerate(case['model']['subgraphs']):
    for p in rp[si]['ops']:
      out.append((si, sg['nodes'][p.node_index], p))
  return out


def _gran(cfg):
  w = cfg.weight_tensor_config
  return None if w is None else str(getattr(w.granularity, 'value', w.granularity))


def dw_drq_tensorwise(case, violation=None):
  """A DEPTHWISE_CONV_2D resolved to dynamic-range with TENSORWISE weights."""
  return any(n['op'] == 'DEPTHWISE_CONV_2D' and p.mode == 'drq' and _gran(p.cfg) == 'TENSORWISE'
             for _, n, p in resolved_ops(case))


def emb_int4_odd_width(case, violation=None):
  """An EMBEDDING_LOOKUP with a 4-bit table whose row width is odd."""
  for si, n, p in resolved_ops(case):
    if n['op'] != 'EMBEDDING_LOOKUP' or p.mode not in ('drq',):
      continue
    if p.cfg.weight_tensor_config.num_bits != 4:
      continue
    table = case['model']['subgraphs'][si]['tensors'][n['in'][1]]
    if table['shape'][-1] % 2 == 1:
      return True
  return False


def bmm_const_lhs(case, violation=None):
  for sg in case['model']['subgraphs']:
    for n in sg['nodes']:
      if n['op'] == 'BATCH_MATMUL' and sg['tensors'][n['in'][0]]['kind'] == 'const':
        return True
  return False


def bmm_drq_multibatch(case, violation=None):
  """A dynamic-range BATCH_MATMUL whose operands have >= 2 batch dimensions of size > 1."""
  for si, n, p in resolved_ops(case):
    if n['op'] != 'BATCH_MATMUL' or p.mode != 'drq':
      continue
    sg = case['model']['subgraphs'][si]
    if not any(sg['tensors'][t]['kind'] == 'const' for t in n['in']):
      continue
    for t in n['in']:
      batch = sg['tensors'][t]['shape'][:-2]
      if sum(1 for d in batch if d > 1) >= 2:
        return True
  return False


# Findings whose failure mode is undefined behaviour inside the runtime kernels
# (out-of-bounds reads/writes): such models must not be executed in a worker.
UNSAFE = [('dw-drq-tensorwise', dw_drq_tensorwise),
          ('emb-int4-odd-width', emb_int4_odd_width),
          ('bmm-drq-multibatch', bmm_drq_multibatch)]


def unsafe_findings(case):
  """Names of the runtime-UB findings the case's quantized model would trigger."""
  try:
    return [name for name, pred in UNSAFE if pred(case, None)]
  except Exception:  # a case the reference resolution cannot handle is not ours to exclude
    return []


def addsub_int16_pot(case, violation=None):
  """An ADD/SUB (potScaleInt16=True, as the converter writes it) resolved to 16-bit static quantization."""
  for si, n, p in resolved_ops(case):
    if n['op'] in ('ADD', 'SUB') and p.mode == 'srq' and p.cfg.activation_tensor_config.num_bits == 16:
      if n.get('opts', {}).get('potScaleInt16', False):
        return True
  return False


_isolated_budget = {}


def take_isolation_budget(names, per_finding=2):
  """True while this worker may still spend a throw-away process on these findings;
  afterwards such cases are excluded (and counted) instead of executed."""
  ok = False
  for n in names:
    if _isolated_budget.get(n, 0) < per_finding:
      _isolated_budget[n] = _isolated_budget.get(n, 0) + 1
      ok = True
  return ok


def addsub_multiplier_overflow(model):
  """True if a quantized ADD/SUB of the (parsed) model makes LiteRT's Prepare
  abort: add.cc/sub.cc compute twice_max_input_scale / (2^left_shift * output_scale)
  and TFLITE_CHECK it to be < 1 (left_shift 20 for 8 bit, 15 for 16 bit). It
  happens when the output range is thousands of times smaller than an input
  range (e.g. x + (-x))."""
  from vq import fb
  ADD, SUB = fb.OP_CODE['ADD'], fb.OP_CODE['SUB']
  for sg in model['subgraphs']:
    for op in sg['ops']:
      if op['code'] not in (ADD, SUB) or len(op['inputs']) != 2:
        continue
      ts = [sg['tensors'][t] for t in op['inputs'] + op['outputs'][:1]]
      if any(t['scale'] is None for t in ts):
        continue
      shift = 15 if ts[2]['type'] == fb.TT.INT16 else 20
      twice = 2.0 * max(ts[0]['scale'][0], ts[1]['scale'][0])
      if twice / ((1 << shift) * ts[2]['scale'][0]) >= 1.0:
        return True
  return False
