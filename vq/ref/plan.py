"""Reference resolution of a recipe against a model spec.

Which rule (hence which mode) each operator of a generated model resolves to,
computed with the reference resolver (vq.ref.resolve) and the
*quantization-side* scope encoding (output names, each followed by ';').
The support predicate is the library's own check (C13's subject, not ours).
"""
from ai_edge_quantizer import algorithm_manager
from ai_edge_quantizer import qtyping

from vq.gen import graph as G
from vq.gen import recipes as R
from vq.ref.resolve import RefRecipe

NOQ = 'no_quantize'
_DEFAULT = qtyping.OpQuantizationConfig()


def supported(algo, op, cfg):
  try:
    algorithm_manager.check_op_quantization_config(
        algo, qtyping.TFLOperationName(op), cfg)
    return True
  except ValueError:
    return False


def _val(x):
  return str(getattr(x, 'value', x))


def mode_of(algo, cfg):
  """'none' | 'fp16' | 'srq' | 'drq' | 'wo' | 'invalid' for a config object."""
  algo = _val(algo)
  if algo == NOQ:
    return 'none'
  if algo == R.FLOATCAST:
    return 'fp16'
  cp = _val(cfg.compute_precision)
  if cp == 'INTEGER' and cfg.activation_tensor_config is not None:
    return 'srq'
  if cp == 'INTEGER':
    return 'drq'
  if cfg.explicit_dequantize:
    return 'wo'
  return 'invalid'


def ref_recipe(case, outcome):
  """RefRecipe equivalent to what the API accepted for this case."""
  ref = RefRecipe(supported)
  if case['recipe']['kind'] == 'shipped':
    for e in R.shipped_recipes()[case['recipe']['name']]:
      cfg = (_DEFAULT if e['algorithm_key'] == NOQ
             else qtyping.OpQuantizationConfig.from_dict(e['op_config']))
      ref.add(e['regex'], e['operation'], e['algorithm_key'], cfg)
    return ref
  for r in outcome.accepted:
    ok = ref.add(r['regex'], r['op'], r['algo'], R.make_config(r['cfg']))
    assert ok, 'API accepted a rule the reference refuses: %r' % (r,)
  return ref


def scope_of(sg, node):
  return ''.join(sg['tensors'][t]['name'] + ';' for t in node['out'] if t >= 0)


class OpPlan:
  def __init__(self, node_index, op, qname, algo, cfg, mode):
    self.node_index, self.op, self.qname = node_index, op, qname
    self.algo, self.cfg, self.mode = algo, cfg, mode


def resolve_model(mspec, ref):
  """Per subgraph: {'ops': [OpPlan in emission order], 'input': (algo,cfg,mode),
  'output': (algo,cfg,mode)}."""
  out = []
  for sg in mspec['subgraphs']:
    ops = []
    for ni in G.emit_order(sg):
      n = sg['nodes'][ni]
      q = G.QNAME.get(n['op'])
      if q is None:
        ops.append(OpPlan(ni, n['op'], None, NOQ, _DEFAULT, 'none'))
        continue
      algo, cfg = ref.resolve(q, scope_of(sg, n), _DEFAULT)
      ops.append(OpPlan(ni, n['op'], q, _val(algo), cfg, mode_of(algo, cfg)))
    in_scope = ''.join(sg['tensors'][t]['name'] + ';' for t in sg['inputs'])
    ia, ic = ref.resolve('INPUT', in_scope, _DEFAULT)
    oa, oc = ref.resolve('OUTPUT', '', _DEFAULT)
    out.append({'ops': ops, 'input': (_val(ia), ic, mode_of(ia, ic)),
                'output': (_val(oa), oc, mode_of(oa, oc))})
  return out
