"""Reference quantization parameter formulas (TFLite quantization spec + the
library's documented conventions: zero included in asymmetric ranges, minimum
range 1e-4), in float64.  Shares no code with the library."""
import numpy as np

MIN_BOUND = 1e-4


def qrange(bits):
  return -(2 ** (bits - 1)), 2 ** (bits - 1) - 1


def params_from_min_max(mn, mx, bits, symmetric):
  """Returns (scale[], zp_exact[], zp[]) as float64/int64 1-D arrays."""
  mn = np.asarray(mn, np.float64).reshape(-1)
  mx = np.asarray(mx, np.float64).reshape(-1)
  qmin, qmax = qrange(bits)
  if symmetric:
    bound = np.maximum(np.maximum(np.abs(mn), np.abs(mx)), MIN_BOUND)
    scale = bound / qmax
    exact = np.zeros_like(scale)
  else:
    hi = np.maximum(mx, 0.0)
    lo = np.minimum(mn, 0.0)
    scale = np.maximum(hi - lo, MIN_BOUND) / (qmax - qmin)
    exact = qmin - lo / scale
  return scale, exact, np.rint(exact).astype(np.int64)


def min_max_of_params(scale, zp, bits, symmetric):
  """The range a fixed (scale, zp) pair denotes, as the library re-derives it."""
  qmin, qmax = qrange(bits)
  mx = (qmax - zp) * scale
  mn = -mx if symmetric else (qmin - zp) * scale
  return mn, mx


def scales_match(stored, want, rtol=3e-6):
  stored = np.asarray(stored, np.float64).reshape(-1)
  want = np.asarray(want, np.float64).reshape(-1)
  return stored.shape == want.shape and bool(np.all(np.abs(stored - want) <= rtol * np.abs(want) + 1e-38))


def zps_match(stored, exact):
  """Equal to rint(exact); +-1 tolerated only within 2e-3 of a rounding tie."""
  stored = np.asarray(stored, np.int64).reshape(-1)
  exact = np.asarray(exact, np.float64).reshape(-1)
  if stored.shape != exact.shape:
    return False
  r = np.rint(exact)
  ok = stored == r
  frac = np.abs(np.abs(exact - np.floor(exact)) - 0.5)
  tie = frac <= 2e-3 * np.maximum(1.0, np.abs(exact) * 1e-3)
  ok |= tie & (np.abs(stored - exact) <= 0.5 + 2e-3 * np.maximum(1.0, np.abs(exact) * 1e-3))
  return bool(np.all(ok))
