"""Operand roles per builtin op, written from the TFLite op definitions."""
INDEX_OPERANDS = {
    'RESHAPE': [1], 'TRANSPOSE': [1], 'MEAN': [1], 'STRIDED_SLICE': [1, 2, 3],
    'SPLIT': [0], 'EMBEDDING_LOOKUP': [0], 'TRANSPOSE_CONV': [0], 'PAD': [1],
}
WEIGHT_POS = {'FULLY_CONNECTED': 1, 'CONV_2D': 1, 'DEPTHWISE_CONV_2D': 1,
              'TRANSPOSE_CONV': 1, 'EMBEDDING_LOOKUP': 1, 'BATCH_MATMUL': 1}
BIAS_POS = {'FULLY_CONNECTED': 2, 'CONV_2D': 2, 'DEPTHWISE_CONV_2D': 2,
            'TRANSPOSE_CONV': 3}
DATA_POS = {'TRANSPOSE_CONV': 2}  # activation operand when not 0
# per-channel dimension of the weight operand expected by the runtime kernel
WEIGHT_QDIM = {'FULLY_CONNECTED': 0, 'CONV_2D': 0, 'DEPTHWISE_CONV_2D': 3,
               'TRANSPOSE_CONV': 0, 'EMBEDDING_LOOKUP': 0}
SAME_SCALE_AS_INPUT = {'RESHAPE': 0, 'TRANSPOSE': 0, 'SPLIT': 1,
                       'STRIDED_SLICE': 0, 'AVERAGE_POOL_2D': 0}
FIXED_OUTPUT = {  # op -> {act bits: (scale, zero_point)}
    'SOFTMAX': {8: (1.0 / 256, -128), 16: (1.0 / 32768, 0)},
    'LOGISTIC': {8: (1.0 / 256, -128), 16: (1.0 / 32768, 0)},
    'TANH': {8: (1.0 / 128, 0), 16: (1.0 / 32768, 0)},
}


def role(op, pos, is_const):
  """'index' | 'weight' | 'bias' | 'data' for input position pos of op."""
  if pos in INDEX_OPERANDS.get(op, []):
    return 'index'
  if op in BIAS_POS and pos == BIAS_POS[op]:
    return 'bias'
  if op == 'BATCH_MATMUL':
    return 'weight' if is_const else 'data'
  if op in WEIGHT_POS and pos == WEIGHT_POS[op] and is_const:
    return 'weight'
  return 'data'
