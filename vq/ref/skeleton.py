"""Skeleton matching between a source model and its quantized version (C02).

Deleting the inserted QUANTIZE/DEQUANTIZE operators and ignoring dtype and
quantization annotations must give back the source graph.
"""
from vq import fb
from vq.core import Violation

Q, DQ = fb.OP_CODE['QUANTIZE'], fb.OP_CODE['DEQUANTIZE']


class SubgraphMatch:

  def __init__(self):
    self.alias = {}       # out tensor index -> original tensor index
    self.op_of = []       # src op index -> out op index
    self.inserted = []    # out op indices of inserted Q/DQ
    self.n_src_tensors = 0

  def orig(self, t):
    return self.alias.get(t, t)


def match(src, out):
  """Returns [SubgraphMatch]; raises Violation('skeleton_*') on any difference."""
  if len(src['subgraphs']) != len(out['subgraphs']):
    raise Violation('skeleton_subgraph_count', '%d vs %d' % (len(src['subgraphs']), len(out['subgraphs'])))
  res = []
  for si, (sg, og) in enumerate(zip(src['subgraphs'], out['subgraphs'])):
    m = SubgraphMatch()
    n_src = len(sg['tensors'])
    m.n_src_tensors = n_src
    if any(o['code'] in (Q, DQ) for o in sg['ops']):
      raise AssertionError('source model already contains Q/DQ ops (generator bug)')
    if len(og['tensors']) < n_src:
      raise Violation('skeleton_tensor_dropped', 'sg%d %d -> %d tensors' % (si, n_src, len(og['tensors'])))
    for ti in range(n_src):
      a, b = sg['tensors'][ti], og['tensors'][ti]
      for k in ('name', 'shape', 'shape_signature'):
        if a[k] != b[k]:
          raise Violation('skeleton_tensor_%s_changed' % k, 'sg%d t%d %r -> %r' % (si, ti, a[k], b[k]))
    remaining = []
    new_outputs = {}
    for oi, op in enumerate(og['ops']):
      if op['code'] in (Q, DQ):
        m.inserted.append(oi)
        if len(op['inputs']) != 1 or len(op['outputs']) != 1:
          raise Violation('skeleton_inserted_op_arity', 'sg%d op%d' % (si, oi))
        new_outputs[op['outputs'][0]] = op['inputs'][0]
      else:
        remaining.append(oi)
    for t_new, t_src in new_outputs.items():
      if t_new < n_src:
        raise Violation('skeleton_inserted_op_writes_original_tensor', 'sg%d t%d' % (si, t_new))
    for ti in range(n_src, len(og['tensors'])):
      if ti not in new_outputs:
        raise Violation('skeleton_extra_tensor_without_inserted_producer', 'sg%d t%d %s' % (si, ti, og['tensors'][ti]['name']))

    def resolve(t, depth=0):
      while t in new_outputs and depth < 64:
        t = new_outputs[t]
        depth += 1
      return t
    for t_new in new_outputs:
      m.alias[t_new] = resolve(t_new)
      a, b = og['tensors'][t_new], og['tensors'][m.alias[t_new]]
      if a['shape'] != b['shape']:
        raise Violation('skeleton_inserted_tensor_shape',
                        'sg%d t%d %s has shape %s, the tensor it re-encodes (t%d) %s' % (
                            si, t_new, a['name'], a['shape'], m.alias[t_new], b['shape']))
    if len(remaining) != len(sg['ops']):
      raise Violation('skeleton_op_count', 'sg%d source %d ops, result %d non-inserted ops' % (si, len(sg['ops']), len(remaining)))
    for k, oi in enumerate(remaining):
      a, b = sg['ops'][k], og['ops'][oi]
      if a['code'] != b['code']:
        raise Violation('skeleton_op_kind', 'sg%d op%d %s -> %s' % (si, k, fb.OP_NAME.get(a['code']), fb.OP_NAME.get(b['code'])))
      if a['opts_type'] != b['opts_type'] or a['opts'] != b['opts'] or a['custom_options'] != b['custom_options']:
        raise Violation('skeleton_op_options', 'sg%d op%d %s: %r -> %r' % (si, k, fb.OP_NAME.get(a['code']), a['opts'], b['opts']))
      if len(a['inputs']) != len(b['inputs']) or len(a['outputs']) != len(b['outputs']):
        raise Violation('skeleton_op_arity', 'sg%d op%d' % (si, k))
      for pos, (x, y) in enumerate(zip(a['inputs'], b['inputs'])):
        if x != m.orig(y):
          raise Violation('skeleton_operand_rewired',
                          'sg%d op%d %s input %d: source t%d, result t%d (resolves to t%d)' % (
                              si, k, fb.OP_NAME.get(a['code']), pos, x, y, m.orig(y)))
      for pos, (x, y) in enumerate(zip(a['outputs'], b['outputs'])):
        if x != y:
          raise Violation('skeleton_output_rewired', 'sg%d op%d output %d: t%d -> t%d' % (si, k, pos, x, y))
      m.op_of.append(oi)
    for kind in ('inputs', 'outputs'):
      if len(sg[kind]) != len(og[kind]):
        raise Violation('skeleton_graph_%s_count' % kind, 'sg%d %s -> %s' % (si, sg[kind], og[kind]))
      for pos, (x, y) in enumerate(zip(sg[kind], og[kind])):
        if x != m.orig(y):
          raise Violation('skeleton_graph_%s_rewired' % kind, 'sg%d position %d: t%d -> t%d (resolves to t%d)' % (si, pos, x, y, m.orig(y)))
        if sg['tensors'][x]['shape'] != og['tensors'][y]['shape']:
          raise Violation('skeleton_graph_%s_shape' % kind, 'sg%d position %d' % (si, pos))
    res.append(m)
  # signatures
  if len(src['signatures']) != len(out['signatures']):
    raise Violation('skeleton_signature_count', '%d -> %d' % (len(src['signatures']), len(out['signatures'])))
  for a, b in zip(src['signatures'], out['signatures']):
    if a['key'] != b['key'] or a['subgraph'] != b['subgraph']:
      raise Violation('skeleton_signature_key', '%r -> %r' % ((a['key'], a['subgraph']), (b['key'], b['subgraph'])))
    sg, og = src['subgraphs'][a['subgraph']], out['subgraphs'][b['subgraph']]
    for kind in ('inputs', 'outputs'):
      if [n for n, _ in a[kind]] != [n for n, _ in b[kind]]:
        raise Violation('skeleton_signature_names', '%s: %r -> %r' % (a['key'], a[kind], b[kind]))
      for (n, ta), (_, tb) in zip(a[kind], b[kind]):
        if ta in sg[kind]:
          pos = sg[kind].index(ta)
          if tb != og[kind][pos]:
            raise Violation(
                'skeleton_signature_tensor',
                'signature %s %s %r: source denotes subgraph %s[%d]; result points at t%d but subgraph %s[%d] is t%d' % (
                    a['key'], kind, n, kind, pos, tb, kind, pos, og[kind][pos]))
  return res
