"""Reference model of recipe resolution (documented last-applicable-rule-wins).

State: ordered list of [regex, [rule, ...]] in order of first insertion of the
regex.  The support predicate is an *input* of the model (taken from the
library by the callers); precedence is what this model decides.
"""
import re

NOQ = 'no_quantize'


class RefRecipe:

  def __init__(self, supported):
    """supported(algo, op, cfg_obj) -> bool."""
    self.scopes = []  # [regex, [ (op, algo, cfg_obj) ]]
    self.supported = supported

  def clone(self):
    r = RefRecipe(self.supported)
    r.scopes = [[rg, list(rules)] for rg, rules in self.scopes]
    return r

  def _find(self, regex):
    for e in self.scopes:
      if e[0] == regex:
        return e
    return None

  def add(self, regex, op, algo, cfg_obj):
    """Returns True if accepted, False if it must be refused (ValueError)."""
    op = str(getattr(op, 'value', op))
    algo = str(getattr(algo, 'value', algo))
    rule = (op, algo, cfg_obj)
    e = self._find(regex)
    if op == '*':
      if e is None:
        self.scopes.append([regex, [rule]])
      else:
        e[1] = [rule]
      return True
    if algo != NOQ and not self.supported(algo, op, cfg_obj):
      return False
    if e is None:
      self.scopes.append([regex, [rule]])
      return True
    for i, r in enumerate(e[1]):
      if r[0] == op:
        e[1][i] = rule
        return True
    e[1].append(rule)
    return True

  def clear(self):
    self.scopes = []

  def resolve(self, op, scope, default_cfg):
    op = str(getattr(op, 'value', op))
    result = (NOQ, default_cfg)
    for regex, rules in self.scopes:
      if re.search(regex, scope):
        for (rop, algo, cfg_obj) in rules:
          if rop != '*' and rop != op:
            continue
          if algo != NOQ and not self.supported(algo, op, cfg_obj):
            continue
          result = (algo, cfg_obj)
    return result

  def export(self):
    return [(regex, r) for regex, rules in self.scopes for r in rules]
