"""Known findings (committed file, never written at run time)."""
import importlib
import json
import os
import re

from vq import core

_PATH = os.path.join(core.VERIF, 'known_findings.json')
_cache = None


def entries():
  global _cache
  if _cache is None:
    if os.path.exists(_PATH):
      with open(_PATH) as f:
        _cache = json.load(f)['findings']
    else:
      _cache = []
  return _cache


def match(prop_id, phase, violation, spec):
  """Id of the *open* finding matching this violation, else None.

  An entry matches when the property is the same, the violation tag matches
  `tag_regex`, the message matches `message_regex` (if given) and the named
  structural predicate (a function `kf_<name>(spec, violation)` in the property
  module) holds (if given).  `fixed` entries never match.
  """
  for e in entries():
    if e['property'] != prop_id or e.get('status') != 'open':
      continue
    m = e.get('match', {})
    if 'tag_regex' in m and not re.search(m['tag_regex'], violation.tag):
      continue
    if 'message_regex' in m and not re.search(m['message_regex'],
                                              violation.message or ''):
      continue
    if 'predicate' in m:
      mod = importlib.import_module('vq.props.' + prop_id.lower())
      pred = getattr(mod, 'kf_' + m['predicate'])
      if not pred(spec, violation):
        continue
    return e['id']
  return None


def text(fid):
  for e in entries():
    if e['id'] == fid:
      return e['text']
  return fid
