"""Drives the public Quantizer API on a generated (model, recipe, data) case."""
import copy

import numpy as np
from hypothesis import strategies as st

from ai_edge_quantizer import quantizer as quantizer_mod

from vq import core, fb
from vq.gen import graph as G
from vq.gen import recipes as R


class Outcome:
  """What happened when a case went through the pipeline."""

  def __init__(self):
    self.model_bytes = None
    self.model_arg = None
    self.batched = False
    self.calib_under = False
    self.qt = None
    self.accepted = []      # rule specs accepted by the API
    self.refused = []       # (rule spec, exception)
    self.recipe = None      # exported recipe after setup
    self.need_calibration = False
    self.calib = None       # calibration result passed to quantize()
    self.calib_exc = None
    self.qbytes = None
    self.exc = None         # exception of quantize()
    self.stage = None

  @property
  def ok(self):
    return self.qbytes is not None


def setup_quantizer(model_bytes, recipe, prior=None, use_after=None, use_fn=None):
  """Quantizer with the recipe applied; returns (qt, accepted, refused).

  prior: name of a shipped calibration-free recipe that is loaded and quantized
  with on the same Quantizer first (an earlier use of the object).
  use_after / use_fn: after that many rules have been applied the Quantizer is
  used once (use_fn(qt): a throw-away calibrate or quantize) before the
  remaining rules are added - the recipe-exploration workflow.
  """
  # the documented argument type is a (mutable) bytearray
  qt = quantizer_mod.Quantizer(model_bytes)
  accepted, refused = [], []
  if prior:
    qt.load_quantization_recipe(copy.deepcopy(R.shipped_recipes()[prior]))
    core.call(qt.quantize)
    qt.load_quantization_recipe([])
  if recipe['kind'] == 'shipped':
    qt.load_quantization_recipe(copy.deepcopy(R.shipped_recipes()[recipe['name']]))
    return qt, accepted, refused
  for k, r in enumerate(recipe['rules']):
    if use_fn is not None and use_after == k and k > 0:
      use_fn(qt)
    try:
      cfg = R.make_config(r['cfg'])
    except ValueError as e:
      refused.append((r, e))
      continue
    try:
      qt.update_quantization_recipe(r['regex'], r['op'], cfg, r['algo'])
      accepted.append(r)
    except Exception as e:  # pylint: disable=broad-except
      # ValueError is the documented refusal; the type of a refusal is C13's
      # subject, for every other check the rule is simply not in the recipe
      refused.append((r, e))
  return qt, accepted, refused


def calibration_data(model_spec, sg_index, seeds):
  return [G.make_inputs(model_spec, sg_index, s) for s in seeds]


def flip_granularity(recipe):
  """The exported recipe with CHANNELWISE <-> TENSORWISE weights."""
  import json
  r = json.loads(json.dumps(recipe))
  for e in r:
    w = (e.get('op_config') or {}).get('weight_tensor_config')
    if w and w.get('granularity') in ('CHANNELWISE', 'TENSORWISE'):
      w['granularity'] = 'TENSORWISE' if w['granularity'] == 'CHANNELWISE' else 'CHANNELWISE'
  return r


def batched(model_bytes, mspec, si, seeds, b, out=None):
  """Calibration samples with a leading batch of b instead of 1 (the signature
  runner resizes the inputs), or None when the float model itself cannot run at
  that batch size (reshape to a constant shape, batch-matmul operands, ...)."""
  from vq import interp
  sg = mspec['subgraphs'][si]
  data = []
  for s in seeds:
    parts = [G.make_inputs(mspec, si, s * 31 + j) for j in range(b)]
    if any(v.ndim < 2 or v.shape[0] != 1 for v in parts[0].values()):
      return None
    data.append({k: np.concatenate([p[k] for p in parts], axis=0) for k in parts[0]})
  try:
    it = interp.make(model_bytes)
    for d in data:
      interp.run_signature(it, sg['sig'], d)
  except Exception:  # pylint: disable=broad-except
    return None
  if out is not None:
    out.batched = True
  return data


def run(case, stop_after=None):
  """Executes the case; never raises for exceptions of the code under test."""
  out = Outcome()
  mspec = case['model']
  out.model_bytes = G.build(mspec)
  if case.get('external_input'):
    out.model_bytes = G.to_external(out.model_bytes)
  # caller-owned, mutable copy handed to the Quantizer (C02/C14 compare it afterwards)
  out.model_arg = bytearray(out.model_bytes)
  def throw_away_use(q):
    # what a user exploring recipes does between two updates; outcome ignored
    if not q.get_quantization_recipe():
      return
    if q.need_calibration:
      for si, sg in enumerate(mspec['subgraphs']):
        core.call(q.calibrate, [G.make_inputs(mspec, si, 12345, 0.02)], sg['sig'])
    else:
      core.call(q.quantize)
  qt, out.accepted, out.refused = setup_quantizer(
      out.model_arg, case['recipe'], case.get('prior'), case.get('use_after'), throw_away_use)
  out.qt = qt
  out.recipe = qt.get_quantization_recipe()
  if not out.recipe:
    out.stage = 'empty_recipe'
    return out
  out.need_calibration = qt.need_calibration
  calib = None
  if out.need_calibration and case.get('stats') is not None:
    calib = constructed_stats(mspec, case['stats'])
  elif out.need_calibration:
    seeds = case.get('calib_seeds', [1])
    if case.get('prior_calib'):
      # an earlier, independent calibration of the same object on other
      # (much smaller) data; its result is discarded
      for si, sg in enumerate(mspec['subgraphs']):
        core.call(qt.calibrate, [G.make_inputs(mspec, si, 4321, 0.02)], sg['sig'])
    res = None
    final = None
    if case.get('calib_under') == 'flip_granularity':
      # the statistics are collected while the recipe has the other weight
      # granularity (calibrate once, then try recipes with the same result)
      final = qt.get_quantization_recipe()
      ok, _ = core.call(qt.load_quantization_recipe, flip_granularity(final))
      if not ok or not qt.need_calibration:
        qt.load_quantization_recipe(copy.deepcopy(final))
        final = None
      else:
        out.calib_under = True
    for si, sg in enumerate(mspec['subgraphs']):
      data = calibration_data(mspec, si, seeds)
      if case.get('calib_batch'):
        data = batched(out.model_bytes, mspec, si, seeds, case['calib_batch'], out) or data
      ok, r = core.call(qt.calibrate, data, sg['sig'], res)
      if not ok:
        out.calib_exc = r
        out.exc = r
        out.stage = 'calibrate'
        return out
      res = r
    calib = res
    if final is not None:
      qt.load_quantization_recipe(copy.deepcopy(final))
  out.calib = calib
  if stop_after == 'calibrate':
    return out
  calib_arg = copy.deepcopy(calib) if calib is not None else None
  ok, r = core.call(qt.quantize, calib_arg)
  if not ok:
    out.exc = r
    out.stage = 'quantize'
    return out
  out.qbytes = bytes(r.quantized_model)
  out.stage = 'done'
  return out


STAT_STYLES = ['range', 'range', 'range', 'constant', 'positive', 'negative',
               'tiny', 'huge', 'zero', 'unit']


def constructed_stats(mspec, st_spec):
  """Check-constructed statistics for every runtime tensor (incl. degenerate)."""
  import zlib
  out = {}
  for sg in mspec['subgraphs']:
    for t in sg['tensors']:
      if t['kind'] == 'const':
        continue
      rs = np.random.RandomState((st_spec['seed'] * 65537 + zlib.crc32(t['name'].encode())) % (2**32))
      style = STAT_STYLES[rs.randint(len(STAT_STYLES))] if st_spec.get('wild') else 'range'
      if st_spec.get('mag', 1.0) < 1e-2:
        style = 'range'   # every tensor with its own small range
      a, b = abs(rs.randn()) + 0.01, abs(rs.randn()) + 0.01
      a, b = a * st_spec.get('mag', 1.0), b * st_spec.get('mag', 1.0)
      if style == 'range':
        mn, mx = -a, b
      elif style == 'constant':
        mn = mx = rs.randn()
      elif style == 'positive':
        mn, mx = a, a + b
      elif style == 'negative':
        mn, mx = -a - b, -a
      elif style == 'tiny':
        mn, mx = -a * 1e-7, b * 1e-7
      elif style == 'huge':
        mn, mx = -a * 1e30, b * 1e30
      elif style == 'zero':
        mn = mx = 0.0
      else:
        mn, mx = 0.0, 1.0
      if t['dtype'] != 'f32':
        mn, mx = 0, 3
      shape = (1,) * len(t['shape'])
      dt = np.float32 if t['dtype'] == 'f32' else np.int32
      out[t['name']] = {'min': np.full(shape, mn, dt), 'max': np.full(shape, mx, dt)}
  return out


# ---------------------------------------------------------------- strategies
def op_out_names(mspec):
  names = []
  for sg in mspec['subgraphs']:
    for n in sg['nodes']:
      for t in n['out']:
        names.append(sg['tensors'][t]['name'])
  return names


def ops_present(mspec):
  s = []
  for sg in mspec['subgraphs']:
    for n in sg['nodes']:
      q = G.QNAME.get(n['op'])
      if q and q not in s:
        s.append(q)
  return s


@st.composite
def cases(draw, model_kw=None, recipe_kind='mixed', max_rules=5, cfg_pool=None,
          allow_skip=True, calib_max=2):
  mspec = draw(G.model_specs(**(model_kw or {})))
  if recipe_kind == 'shipped' or (recipe_kind == 'mixed' and draw(st.integers(0, 3)) == 0):
    recipe = {'kind': 'shipped', 'name': draw(st.sampled_from(SHIPPED_NAMES))}
  else:
    rules = draw(R.rules_for(op_out_names(mspec), ops_present(mspec),
                             max_rules=max_rules, cfg_pool=cfg_pool,
                             allow_skip=allow_skip))
    groups = G.sharer_groups(mspec)
    if groups and draw(st.integers(0, 2)) == 0:
      # the consumers of one shared constant get individually drawn treatments
      import re as _re
      pool = draw(st.permutations((cfg_pool or R.COMMON_CFGS) + [(R.NOQ, R.DEFAULT)]))
      grp = draw(st.permutations(draw(st.sampled_from(groups))))
      rules = rules[:draw(st.integers(0, 1))] + [
          R.rule('^' + _re.escape(name) + ';', '*', pool[k][0], dict(pool[k][1]))
          for k, name in enumerate(grp[:3])]
    recipe = {'kind': 'rules', 'rules': rules}
  n = draw(st.integers(1, calib_max))
  case = {'model': mspec, 'recipe': recipe,
          'calib_seeds': [draw(st.integers(0, 999)) for _ in range(n)],
          'input_seed': draw(st.integers(0, 999))}
  draw(usage_dimensions(case))
  if draw(st.integers(0, 5)) == 0:
    # calibration samples with a batch of 2 or 3 where the model stores 1
    case['calib_batch'] = draw(st.sampled_from([2, 3]))
  return case


@st.composite
def usage_dimensions(draw, case):
  """Adds (in place) earlier uses of the same Quantizer object to a case."""
  rules = case['recipe'].get('rules') or []
  if len(rules) >= 2 and draw(st.integers(0, 3)) == 0:
    case['use_after'] = draw(st.integers(1, len(rules) - 1))
  if draw(st.integers(0, 5)) == 0:
    case['prior_calib'] = True
  if draw(st.integers(0, 5)) == 0:
    case['calib_under'] = 'flip_granularity'
  return None


SHIPPED_NAMES = ['default_a16w8_recipe', 'default_a8w8_recipe',
                 'default_af32w4float_recipe', 'default_af32w8float_recipe',
                 'dynamic_wi8_afp32_recipe', 'recipe.dynamic_wi8_afp32()']


def quantize_like_tensor(x, detail, narrow_if_symmetric=False):
  """Quantize a float input for a (possibly quantized) model input tensor.

  narrow_if_symmetric: clip to [-qmax, qmax] when the zero point is 0, the
  convention validate() itself uses when it feeds a quantized model.
  """
  qp = detail['quantization_parameters']
  if len(qp['scales']) == 0:
    return x.astype(detail['dtype'])
  scale = float(qp['scales'][0])
  zp = int(qp['zero_points'][0])
  info = np.iinfo(detail['dtype'])
  if narrow_if_symmetric:
    # validate()'s own convention, bit for bit: float32 multiply by the float32
    # reciprocal of the scale (a 16-bit code can differ by one from the float64
    # quotient, which then shows in the reported metrics at the 1e-5 level)
    inv = np.float32(1.0) / np.asarray(qp['scales'], np.float32)[0]
    q = np.rint(np.multiply(x.astype(np.float32), inv) + zp)
  else:
    q = np.rint(x.astype(np.float64) / scale) + zp
  lo = info.min + 1 if (narrow_if_symmetric and zp == 0) else info.min
  return np.clip(q, lo, info.max).astype(detail['dtype'])


def uses_skip_checks(out):
  return any(r['cfg'].get('skip') for r in out.accepted)


def must_not_execute(case, qbytes):
  """Names of recorded findings that make executing this quantized model in the
  worker unsafe (runtime UB or a runtime CHECK that aborts the process)."""
  from vq import kfpred
  u = kfpred.unsafe_findings(case)
  try:
    if kfpred.addsub_multiplier_overflow(fb.parse(qbytes)):
      u = u + ['addsub-output-scale']
  except Exception:  # pylint: disable=broad-except
    pass
  return u
