"""Run one oracle call in a throw-away subprocess.

Used for cases that match a recorded finding whose failure mode is undefined
behaviour inside the runtime (out-of-bounds reads in hybrid kernels): executing
them in the worker would let one case corrupt the heap for all later cases.

  python -m vq.isolated <module> <function>   (case JSON on stdin)
prints one line 'ISOLATED ' + JSON: {'status': 'ok'|'violation', ...}.
"""
import importlib
import json
import os
import subprocess
import sys

from vq import core


def run(module, function, case, timeout=300):
  """Returns ('ok', result) | ('violation', Violation) | ('abort', signal/rc)."""
  env = dict(os.environ)
  p = subprocess.run([sys.executable, '-m', 'vq.isolated', module, function],
                     input=core.jdump(case), capture_output=True, text=True,
                     env=env, cwd=core.VERIF, timeout=timeout)
  for l in p.stdout.splitlines():
    if l.startswith('ISOLATED '):
      d = json.loads(l[9:])
      if d['status'] == 'ok':
        return 'ok', d.get('result')
      v = core.Violation(d['tag'], d['message'], d.get('data'))
      return 'violation', v
  if p.returncode < 0:
    return 'abort', -p.returncode
  raise core.HarnessError('isolated child failed rc=%s: %s' % (p.returncode, (p.stderr or p.stdout)[-1500:]))


def main():
  mod = importlib.import_module(sys.argv[1])
  fn = getattr(mod, sys.argv[2])
  case = json.loads(sys.stdin.read())
  try:
    res = fn(case)
    out = {'status': 'ok', 'result': res}
  except core.Violation as v:
    out = {'status': 'violation', 'tag': v.tag, 'message': v.message, 'data': v.data}
  print('ISOLATED ' + core.jdump(out))
  sys.stdout.flush()


if __name__ == '__main__':
  main()
