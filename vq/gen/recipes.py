"""Config lattice, rule and recipe generators (DESIGN.md 3.3)."""
import itertools
import json
import os
import re

from hypothesis import strategies as st

from ai_edge_quantizer import qtyping

MINMAX = 'min_max_uniform_quantize'
FLOATCAST = 'float_casting'
NOQ = 'no_quantize'

SELECTORS = ['*', 'INPUT', 'OUTPUT', 'FULLY_CONNECTED', 'BATCH_MATMUL',
             'DEPTHWISE_CONV_2D', 'CONV_2D', 'CONV_2D_TRANSPOSE',
             'AVERAGE_POOL_2D', 'RESHAPE', 'EMBEDDING_LOOKUP', 'SOFTMAX',
             'TANH', 'TRANSPOSE', 'GELU', 'ADD', 'SUB', 'MUL', 'MEAN', 'RSQRT',
             'CONCATENATION', 'STRIDED_SLICE', 'SPLIT', 'LOGISTIC']
OP_SELECTORS = [s for s in SELECTORS if s not in ('*',)]

# ---- config specs -----------------------------------------------------------
# cfg = {'act': None|[bits, sym], 'w': None|[bits, sym, gran, dtype(, block_size)],
#        'cp': 'INTEGER'|'FLOAT', 'ed': bool, 'skip': bool}


def cfg(act=None, w=None, cp='FLOAT', ed=False, skip=False):
  return {'act': act, 'w': w, 'cp': cp, 'ed': ed, 'skip': skip}


DRQ8 = cfg(w=[8, True, 'CHANNELWISE', 'INT'], cp='INTEGER')
DRQ8_T = cfg(w=[8, True, 'TENSORWISE', 'INT'], cp='INTEGER')
DRQ4 = cfg(w=[4, True, 'CHANNELWISE', 'INT'], cp='INTEGER')
WO8 = cfg(w=[8, False, 'CHANNELWISE', 'INT'], cp='FLOAT', ed=True)
WO8_S = cfg(w=[8, True, 'TENSORWISE', 'INT'], cp='FLOAT', ed=True)
WO4 = cfg(w=[4, False, 'CHANNELWISE', 'INT'], cp='FLOAT', ed=True)
WO4_S = cfg(w=[4, True, 'TENSORWISE', 'INT'], cp='FLOAT', ed=True)
A8W8 = cfg(act=[8, False], w=[8, True, 'CHANNELWISE', 'INT'], cp='INTEGER')
A8W8_T = cfg(act=[8, False], w=[8, True, 'TENSORWISE', 'INT'], cp='INTEGER')
A8SW8 = cfg(act=[8, True], w=[8, True, 'CHANNELWISE', 'INT'], cp='INTEGER')
A16W8 = cfg(act=[16, True], w=[8, True, 'CHANNELWISE', 'INT'], cp='INTEGER')
A16W8_T = cfg(act=[16, True], w=[8, True, 'TENSORWISE', 'INT'], cp='INTEGER')
A8W4 = cfg(act=[8, False], w=[4, True, 'CHANNELWISE', 'INT'], cp='INTEGER')
A16W4 = cfg(act=[16, True], w=[4, True, 'TENSORWISE', 'INT'], cp='INTEGER')
FP16 = cfg(w=[16, True, 'TENSORWISE', 'FLOAT'], cp='FLOAT', ed=True)
DEFAULT = cfg()

FLOAT_COMPUTE_CFGS = [(MINMAX, c) for c in (DRQ8, DRQ8_T, DRQ4, WO8, WO8_S, WO4, WO4_S)] + [(FLOATCAST, FP16)]
STATIC_CFGS = [(MINMAX, c) for c in (A8W8, A8W8_T, A8SW8, A16W8, A16W8_T, A8W4, A16W4)]
COMMON_CFGS = FLOAT_COMPUTE_CFGS + STATIC_CFGS


def tensor_config(t, dtype=None):
  if t is None:
    return None
  if len(t) == 2:
    return qtyping.TensorQuantizationConfig(
        num_bits=t[0], symmetric=t[1],
        granularity=qtyping.QuantGranularity.TENSORWISE,
        dtype=qtyping.TensorDataType.INT)
  return qtyping.TensorQuantizationConfig(
      num_bits=t[0], symmetric=t[1], granularity=qtyping.QuantGranularity(t[2]),
      dtype=qtyping.TensorDataType(t[3]), block_size=t[4] if len(t) > 4 else 0)


def make_config(c):
  """cfg spec -> OpQuantizationConfig (may raise ValueError by construction)."""
  return qtyping.OpQuantizationConfig(
      activation_tensor_config=tensor_config(c['act']),
      weight_tensor_config=tensor_config(c['w']),
      compute_precision=qtyping.ComputePrecision(c['cp']),
      explicit_dequantize=c['ed'], skip_checks=c.get('skip', False))


def config_dict(c):
  """cfg spec -> the plain-JSON dict form used in recipe files (strings)."""
  def td(t):
    if len(t) == 2:
      t = [t[0], t[1], 'TENSORWISE', 'INT']
    return {'num_bits': t[0], 'symmetric': t[1], 'granularity': t[2],
            'dtype': t[3], 'block_size': t[4] if len(t) > 4 else 0}
  d = {}
  if c['act'] is not None:
    d['activation_tensor_config'] = td(c['act'])
  if c['w'] is not None:
    d['weight_tensor_config'] = td(c['w'])
  d['compute_precision'] = c['cp']
  d['explicit_dequantize'] = c['ed']
  d['skip_checks'] = c.get('skip', False)
  return d


def lattice():
  """All cfg specs of the finite lattice L (skip_checks False)."""
  acts = [None] + [[b, s] for b in (8, 16) for s in (True, False)]
  ws = [[b, s, g, d] for b in (4, 8, 16) for s in (True, False)
        for g in ('TENSORWISE', 'CHANNELWISE') for d in ('INT', 'FLOAT')]
  out = []
  for a, w, cp, ed in itertools.product(acts, ws, ('INTEGER', 'FLOAT'), (False, True)):
    out.append(cfg(a, w, cp, ed))
  return out


def mode_of(algo, c):
  """Operating mode a (algorithm, cfg) pair selects."""
  if algo == NOQ:
    return 'none'
  if algo == FLOATCAST:
    return 'fp16'
  if c['cp'] == 'INTEGER' and c['act'] is not None:
    return 'srq'
  if c['cp'] == 'INTEGER':
    return 'drq'
  if c['ed']:
    return 'wo'
  return 'invalid'


# ---- rules ----------------------------------------------------------------
# rule = {'regex': str, 'op': selector str, 'algo': str, 'cfg': cfg spec}
def rule(regex, op, algo, c):
  return {'regex': regex, 'op': op, 'algo': algo, 'cfg': c}


def rule_dict(r):
  """Rule spec -> recipe-file entry (all strings), as load() receives it."""
  d = {'regex': r['regex'], 'operation': r['op'], 'algorithm_key': r['algo']}
  if r['algo'] != NOQ or r.get('keep_cfg'):
    d['op_config'] = config_dict(r['cfg'])
  return d


def shipped_recipes():
  """name -> list-of-dict recipe, loaded unchanged from the repository."""
  from ai_edge_quantizer import recipe as recipe_mod
  from vq import core
  d = os.path.join(core.REPO, 'ai_edge_quantizer', 'recipes')
  out = {}
  for f in sorted(os.listdir(d)):
    if f.startswith(('default_', 'dynamic_')) and f.endswith('.json'):
      with open(os.path.join(d, f)) as fh:
        out[f[:-5]] = json.load(fh)
  out['recipe.dynamic_wi8_afp32()'] = recipe_mod.dynamic_wi8_afp32()
  return out


def regex_alphabet(names):
  """Regexes built from actual tensor names (DESIGN.md 3.3)."""
  out = ['.*']
  for n in names:
    e = re.escape(n)
    out += [e, '^' + e + '$', e + '$', e + ';', '^' + e]
    if '/' in n:
      out.append(re.escape(n.split('/')[0] + '/'))
      out.append(re.escape(n.rsplit('/', 1)[0]))
    if len(n) > 3:
      out.append(re.escape(n[:len(n) // 2]))
      out.append(re.escape(n[1:-1]))
  out.append('never_matches_anything_zz')
  return out


@st.composite
def cfg_specs(draw, common_weight=6):
  if draw(st.integers(0, common_weight)):
    algo, c = draw(st.sampled_from(COMMON_CFGS))
    return algo, dict(c)
  c = draw(st.sampled_from(lattice()))
  algo = draw(st.sampled_from([MINMAX, MINMAX, FLOATCAST]))
  return algo, dict(c)


@st.composite
def rules_for(draw, op_out_names, ops_present, max_rules=5, allow_skip=True,
              cfg_pool=None, allow_noq=True, selectors=None, regex_pool=None):
  """A rule sequence for a concrete model.

  op_out_names: list of output-tensor names of ops (scope material).
  ops_present: quantizer op names present in the model.
  """
  n = draw(st.integers(1, max_rules))
  regs = regex_pool or regex_alphabet(op_out_names[:6] if len(op_out_names) <= 6 else
                                      op_out_names[:3] + op_out_names[-3:])
  sels = selectors or (['*', '*', '*', 'INPUT', 'OUTPUT'] + list(ops_present) * 2 +
                       ['FULLY_CONNECTED', 'SOFTMAX'])
  out = []
  for _ in range(n):
    regex = '.*' if draw(st.integers(0, 2)) == 0 else draw(st.sampled_from(regs))
    op = draw(st.sampled_from(sels))
    if allow_noq and draw(st.integers(0, 6)) == 0:
      out.append(rule(regex, op, NOQ, dict(DEFAULT)))
      continue
    if cfg_pool is not None:
      algo, c = draw(st.sampled_from(cfg_pool))
      c = dict(c)
    else:
      algo, c = draw(cfg_specs())
    if allow_skip and draw(st.integers(0, 11)) == 0:
      c['skip'] = True
    out.append(rule(regex, op, algo, c))
  return out
