"""Generated float TFLite models in converter normal form.

A *model spec* is a JSON-serialisable dict (see DESIGN.md 3.2).  `model_specs`
is the Hypothesis strategy producing specs, `build` turns a spec into a
flatbuffer through the generated object API (no TF converter involved), and
`make_inputs` expands integer seeds into input arrays.  Every random choice is
a Hypothesis draw; numeric payloads are expanded deterministically from drawn
seeds with numpy RandomState.
"""
import copy
import math

import numpy as np
from hypothesis import strategies as st

from ai_edge_litert import schema_py_generated as S
from tensorflow.lite.tools import flatbuffer_utils

B = S.BuiltinOperator
TT = S.TensorType

SUPPORTED = [
    'FULLY_CONNECTED', 'CONV_2D', 'DEPTHWISE_CONV_2D', 'TRANSPOSE_CONV',
    'BATCH_MATMUL', 'AVERAGE_POOL_2D', 'RESHAPE', 'EMBEDDING_LOOKUP',
    'SOFTMAX', 'TANH', 'LOGISTIC', 'GELU', 'RSQRT', 'TRANSPOSE', 'ADD', 'SUB',
    'MUL', 'MEAN', 'CONCATENATION', 'STRIDED_SLICE', 'SPLIT']
UNSUPPORTED = ['RELU', 'ABS', 'NEG', 'MAXIMUM', 'MAX_POOL_2D', 'LEAKY_RELU',
               'PAD']
ALL_OPS = SUPPORTED + UNSUPPORTED

# quantizer's name for each builtin (TFLOperationName value)
QNAME = {k: k for k in SUPPORTED}
QNAME['TRANSPOSE_CONV'] = 'CONV_2D_TRANSPOSE'

OPTS = {
    'FULLY_CONNECTED': 'FullyConnectedOptions',
    'CONV_2D': 'Conv2DOptions',
    'DEPTHWISE_CONV_2D': 'DepthwiseConv2DOptions',
    'TRANSPOSE_CONV': 'TransposeConvOptions',
    'BATCH_MATMUL': 'BatchMatMulOptions',
    'AVERAGE_POOL_2D': 'Pool2DOptions',
    'MAX_POOL_2D': 'Pool2DOptions',
    'RESHAPE': 'ReshapeOptions',
    'SOFTMAX': 'SoftmaxOptions',
    'GELU': 'GeluOptions',
    'TRANSPOSE': 'TransposeOptions',
    'ADD': 'AddOptions', 'SUB': 'SubOptions', 'MUL': 'MulOptions',
    'MEAN': 'ReducerOptions',
    'CONCATENATION': 'ConcatenationOptions',
    'STRIDED_SLICE': 'StridedSliceOptions',
    'SPLIT': 'SplitOptions',
    'MAXIMUM': 'MaximumMinimumOptions',
    'LEAKY_RELU': 'LeakyReluOptions',
    'PAD': 'PadOptions',
    'SVDF': 'SVDFOptions',
    'GREATER': 'GreaterOptions',
    'SELECT': 'SelectOptions',
}

DT = {'f32': (TT.FLOAT32, np.float32), 'i32': (TT.INT32, np.int32), 'bool': (TT.BOOL, np.bool_)}

CONST_STYLES_SANE = ['normal', 'normal', 'normal', 'positive', 'negative',
                     'outlier']
CONST_STYLES_ALL = CONST_STYLES_SANE + ['constant', 'zeros', 'tiny', 'huge',
                                        'onesided_small', 'grid', 'lattice',
                                        'lattice', 'near_lattice', 'near_lattice']


# --------------------------------------------------------------------------
# constant / input data expansion
# --------------------------------------------------------------------------
def const_values(t):
  """ndarray for a const tensor spec."""
  dt = DT[t['dtype']][1]
  shape = tuple(t['shape'])
  d = t['data']
  if 'values' in d:
    return np.array(d['values'], dt).reshape(shape)
  rs = np.random.RandomState(d['seed'] % (2**32))
  mag = float(d.get('mag', 1.0))
  style = d.get('style', 'normal')
  a = rs.randn(*shape) if shape else rs.randn()
  a = np.asarray(a, np.float64)
  if style == 'normal':
    a = a * mag
  elif style == 'positive':
    a = np.abs(a) * mag + 0.01 * mag
  elif style == 'negative':
    a = -np.abs(a) * mag - 0.01 * mag
  elif style == 'outlier':
    a = a * mag
    if a.size:
      flat = a.reshape(-1)
      flat[rs.randint(flat.size)] *= 12.0
  elif style == 'constant':
    a = np.full(shape, mag)
  elif style == 'zeros':
    a = np.zeros(shape)
  elif style == 'tiny':
    a = a * 1e-7
  elif style == 'huge':
    a = a * 1e6
  elif style == 'onesided_small':
    a = np.abs(a) * 1e-3 * mag + 5.0 * mag
  elif style == 'grid':
    # values on a coarse grid: many exact rounding ties after quantization
    a = np.round(a * 4) / 4.0 * mag
  elif style in ('lattice', 'near_lattice'):
    # values whose range sits exactly on (lattice) or a fraction of a step off
    # (near_lattice) the code lattice of 4- or 8-bit asymmetric quantization with
    # a chosen zero point (0, an end of the type, next to one, or any): both end
    # values are present in every slice along axis 0 and along the last axis
    bits = 4 if rs.randint(3) == 0 else 8
    lo_c, hi_c = -(2 ** (bits - 1)), 2 ** (bits - 1) - 1
    edge = [lo_c, lo_c + 1, -1, 0, 0, 0, 1, hi_c - 1, hi_c]
    t = edge[rs.randint(len(edge))] if rs.randint(4) else rs.randint(lo_c, hi_c + 1)
    step = 2.0 ** rs.randint(-9, 2)
    f = 0.0 if style == 'lattice' else rs.uniform(-0.45, 0.45)
    vmin, vmax = (lo_c - t - f) * step, (hi_c - t - f) * step
    a = rs.uniform(vmin, vmax, size=shape) if shape else np.asarray(vmin)
    a = np.asarray(a, np.float64)
    if a.ndim >= 1 and a.size >= 2:
      b2 = a.reshape(a.shape[0], -1) if a.ndim >= 2 else a.reshape(1, -1)
      if b2.shape[1] >= 2:
        b2[:, 0], b2[:, -1] = vmin, vmax
      else:
        b2[0, 0], b2[-1, 0] = vmin, vmax
      a = b2.reshape(shape)
      if a.ndim >= 2 and a.shape[0] >= 2:
        a[0, ..., :] = np.where(np.arange(a.shape[-1]) % 2 == 0, vmin, vmax) if a.shape[-1] >= 2 else a[0, ..., :]
        a[-1, ..., :] = np.where(np.arange(a.shape[-1]) % 2 == 0, vmax, vmin) if a.shape[-1] >= 2 else a[-1, ..., :]
  else:
    raise KeyError(style)
  return np.asarray(a, dt).reshape(shape)


def make_inputs(spec, sg_index, seed, scale=1.0):
  """dict signature-arg-name -> ndarray for one subgraph's signature."""
  sg = spec['subgraphs'][sg_index]
  out = {}
  for k, ti in enumerate(sg['inputs']):
    t = sg['tensors'][ti]
    rs = np.random.RandomState((seed * 7919 + k * 104729 + sg_index) % (2**32))
    shape = tuple(t['shape'])
    if t['dtype'] == 'i32':
      v = rs.randint(0, t['dom'][1], size=shape).astype(np.int32)
    elif t.get('dom'):
      lo, hi = t['dom']
      v = rs.uniform(lo, hi, size=shape).astype(np.float32)
    else:
      v = (rs.randn(*shape) * t.get('mag', 1.0) * scale).astype(np.float32)
    out[arg_name(sg, k, True)] = v
  return out


def arg_name(sg, k, is_input):
  return ('%s_in%d' if is_input else '%s_out%d') % (sg.get('argprefix', 'a'), k)


# --------------------------------------------------------------------------
# emission order
# --------------------------------------------------------------------------
def emit_order(sg):
  """A valid topological order of node indices, steered by sg['order']."""
  nodes = sg['nodes']
  prio = list(sg.get('order') or [0] * len(nodes))
  prio += [0] * (len(nodes) - len(prio))
  producer = {}
  for ni, n in enumerate(nodes):
    for t in n['out']:
      producer[t] = ni
  deps = []
  for ni, n in enumerate(nodes):
    deps.append({producer[t] for t in n['in'] if t in producer})
  done, order = set(), []
  while len(order) < len(nodes):
    ready = [ni for ni in range(len(nodes))
             if ni not in done and deps[ni] <= done]
    ready.sort(key=lambda ni: (prio[ni], ni))
    order.append(ready[0])
    done.add(ready[0])
  return order


# --------------------------------------------------------------------------
# flatbuffer construction
# --------------------------------------------------------------------------
def _opts(op, o):
  kind = OPTS.get(op)
  if kind is None or o is None or o.get('_none'):
    return 0, None
  obj = getattr(S, kind + 'T')()
  for k, v in o.items():
    if k.startswith('_'):
      continue
    setattr(obj, k, v)
  return getattr(S.BuiltinOptions, kind), obj


def _opcode_version(op, node):
  if op == 'TRANSPOSE_CONV' and len(node['in']) == 4:
    return 3
  if op == 'FULLY_CONNECTED' and node.get('opts', {}).get('keepNumDims'):
    return 5
  return 1


def build(spec, overrides=None, only_subgraph=None, with_signatures=True):
  """Spec -> .tflite bytes.

  overrides: {tensor name: ndarray} replaces constant contents (same shape,
    float32) -- used to build reference programs.
  only_subgraph: build the single-subgraph model made of that subgraph.
  """
  overrides = overrides or {}
  m = S.ModelT()
  m.version = 3
  m.description = b'MLIR Converted.'
  m.buffers = [S.BufferT()]
  m.operatorCodes = []
  m.subgraphs = []
  m.signatureDefs = []

  def opcode(op, version):
    code = getattr(B, op)
    for i, c in enumerate(m.operatorCodes):
      if c.builtinCode == code:
        c.version = max(c.version, version)
        return i
    c = S.OperatorCodeT()
    c.builtinCode = code
    c.deprecatedBuiltinCode = min(code, 127)
    c.version = version
    m.operatorCodes.append(c)
    return len(m.operatorCodes) - 1

  sg_indices = (range(len(spec['subgraphs'])) if only_subgraph is None
                else [only_subgraph])
  buffer_of = {}  # (sg, tensor) -> buffer index
  for out_si, si in enumerate(sg_indices):
    sg = spec['subgraphs'][si]
    g = S.SubGraphT()
    g.name = sg.get('name', 'main').encode()
    g.tensors, g.operators = [], []
    for ti, t in enumerate(sg['tensors']):
      ft = S.TensorT()
      ft.name = t['name'].encode()
      ft.shape = np.array(t['shape'], np.int32)
      if t.get('shape_signature') is not None:
        ft.shapeSignature = np.array(t['shape_signature'], np.int32)
      ft.type = DT[t['dtype']][0]
      ft.quantization = S.QuantizationParametersT()
      ft.hasRank = True
      if t['kind'] == 'var':   # state of a stateful op: no data, reset to zero
        ft.isVariable = True
      share = t.get('share')
      if (t['kind'] == 'const' and share is not None and
          (tuple(share) in buffer_of)):
        ft.buffer = buffer_of[tuple(share)]
      else:
        b = S.BufferT()
        if t['kind'] == 'const':
          src = t
          if share is not None:  # unshared stand-alone build
            src = spec['subgraphs'][share[0]]['tensors'][share[1]]
            src = dict(src, shape=t['shape'], dtype=t['dtype'])
          if t['name'] in overrides:
            vals = np.asarray(overrides[t['name']], DT[t['dtype']][1]).reshape(
                tuple(t['shape']))
          else:
            vals = const_values(src)
          b.data = np.frombuffer(np.ascontiguousarray(vals).tobytes(), np.uint8)
        m.buffers.append(b)
        ft.buffer = len(m.buffers) - 1
      buffer_of[(si, ti)] = ft.buffer
      g.tensors.append(ft)
    if out_si == 0:
      # zero-element constants (an empty data vector, as an exporter writes for
      # e.g. tf.zeros([0])); nothing reads them
      for k in range(int(spec.get('empty_consts', 0))):
        ft = S.TensorT()
        ft.name = ('empty_const_%d' % k).encode()
        ft.shape = np.array([0], np.int32)
        ft.type = TT.FLOAT32
        ft.quantization = S.QuantizationParametersT()
        ft.hasRank = True
        b = S.BufferT()
        b.data = np.zeros([0], np.uint8)
        m.buffers.append(b)
        ft.buffer = len(m.buffers) - 1
        g.tensors.append(ft)
    for ni in emit_order(sg):
      n = sg['nodes'][ni]
      o = S.OperatorT()
      o.opcodeIndex = opcode(n['op'], _opcode_version(n['op'], n))
      o.inputs = np.array(n['in'], np.int32)
      o.outputs = np.array(n['out'], np.int32)
      ot, oo = _opts(n['op'], n.get('opts'))
      o.builtinOptionsType = ot
      o.builtinOptions = oo
      g.operators.append(o)
    g.inputs = np.array(sg['inputs'], np.int32)
    g.outputs = np.array(sg['outputs'], np.int32)
    m.subgraphs.append(g)
    if with_signatures and sg.get('sig') is not None:
      sd = S.SignatureDefT()
      sd.signatureKey = sg['sig']
      sd.subgraphIndex = out_si

      def tm(name, idx):
        x = S.TensorMapT()
        x.name = name
        x.tensorIndex = idx
        return x
      # the converter may list signature entries in another order (sorted by
      # name) than the subgraph inputs/outputs
      ip = sg.get('sig_in_perm') or list(range(len(sg['inputs'])))
      op_ = sg.get('sig_out_perm') or list(range(len(sg['outputs'])))
      sd.inputs = [tm(arg_name(sg, k, True), sg['inputs'][k]) for k in ip]
      sd.outputs = [tm(arg_name(sg, k, False), sg['outputs'][k]) for k in op_]
      m.signatureDefs.append(sd)
  # the signature list need not be in subgraph order (each entry names its
  # subgraph); e.g. an exporter that sorts signatures by key
  so = spec.get('sig_order')
  if so and only_subgraph is None and len(so) == len(m.signatureDefs):
    m.signatureDefs = [m.signatureDefs[k] for k in so]

  if spec.get('dedup'):
    _dedup_buffers(m)
  if spec.get('metadata', True):
    md = S.MetadataT()
    md.name = b'min_runtime_version'
    b = S.BufferT()
    b.data = np.frombuffer(b'1.5.0'.ljust(16, b'\0'), np.uint8)
    m.buffers.append(b)
    md.buffer = len(m.buffers) - 1
    m.metadata = [md]
  return bytes(flatbuffer_utils.convert_object_to_bytearray(m))


def _dedup_buffers(m):
  """Converter-style: identical constant byte strings share one buffer."""
  seen, remap, new = {}, {}, []
  for i, b in enumerate(m.buffers):
    key = None if (i == 0 or b.data is None) else b.data.tobytes()
    if key is not None and key in seen:
      remap[i] = seen[key]
      continue
    remap[i] = len(new)
    if key is not None:
      seen[key] = len(new)
    new.append(b)
  m.buffers = new
  for g in m.subgraphs:
    for t in g.tensors:
      t.buffer = remap[t.buffer]


# --------------------------------------------------------------------------
# the generator
# --------------------------------------------------------------------------
_SCOPES = ['model', 'enc', 'dec', 'block_0', 'block_1', 'layer', 'dense',
           'attn', 'mlp', 'head', 'stem']


class _Names:
  def __init__(self):
    self.used = set()
    self.k = 0

  def fresh(self, base):
    name = base
    while name in self.used or not name:
      self.k += 1
      name = '%s__%d' % (base, self.k)
    self.used.add(name)
    return name


class _SG:
  """Incremental subgraph spec builder."""

  def __init__(self, names, si, draw, cfg):
    self.names, self.si, self.draw, self.cfg = names, si, draw, cfg
    self.tensors, self.nodes, self.inputs = [], [], []
    self.scope = draw(st.sampled_from(_SCOPES))
    self.kcount = 0

  # ---- naming -----------------------------------------------------------
  def _name(self, kind, op=None):
    d = self.draw
    self.kcount += 1
    k = self.kcount
    style = d(st.integers(0, 5))
    if kind == 'in':
      base = 'serving_default_%s_x%d:0' % (self.scope, k)
    elif kind == 'const':
      base = ['arith.constant%d' % k, '%s/w%d' % (self.scope, k),
              '%s/%s/kernel%d' % (self.scope, (op or 'c').lower(), k),
              'tfl.pseudo_const%d' % k, '%s/b%d/ReadVariableOp' % (self.scope, k),
              '%s/c%d' % (self.scope, k)][style]
    else:
      o = (op or 'op').lower()
      base = ['%s/%s_%d' % (self.scope, o, k),
              '%s/%s_%d/MatMul;%s/%s_%d/BiasAdd' % (self.scope, o, k, self.scope, o, k),
              'StatefulPartitionedCall_%d:%d' % (self.si, k),
              '%s/%s/%s%d' % (self.scope, d(st.sampled_from(_SCOPES)), o, k),
              '%s.%s%d' % (self.scope, o, k),
              '%s/%s_%d;' % (self.scope, o, k)][style]
    if self.cfg.get('collide_names') and self.tensors and d(st.integers(0, 11 if self.si else 39)) == 0:
      pool = [t['name'] for t in self.tensors]
      if self.si and d(st.integers(0, 3)):
        # ... or like a tensor of an earlier subgraph (what gets inserted there
        # must not rename anything here)
        pool = [t['name'] for (_, ts) in self.cfg['_all_tensors']() for t in ts] or pool
      other = d(st.sampled_from(pool))
      base = other + d(st.sampled_from(['_dequant', '_quantized']))
    return self.names.fresh(base)

  # ---- tensors ----------------------------------------------------------
  def new_input(self, shape, dtype='f32', dom=None, mag=1.0):
    t = {'name': self._name('in'), 'shape': list(shape), 'dtype': dtype,
         'kind': 'in', 'dom': dom, 'mag': mag,
         'rng': dom if dtype == 'f32' else None}
    if dtype == 'f32' and self.draw(st.integers(0, 3)) == 0:
      t['shape_signature'] = [-1] + list(shape[1:])
    self.tensors.append(t)
    self.inputs.append(len(self.tensors) - 1)
    return len(self.tensors) - 1

  def new_act(self, shape, op, rng=None):
    t = {'name': self._name('act', op), 'shape': list(shape), 'dtype': 'f32',
         'kind': 'act', 'rng': rng}
    self.tensors.append(t)
    return len(self.tensors) - 1

  def const_f(self, shape, fan_in, op=None, role='w', positive=False):
    """A float constant: fresh, a re-used tensor, or a buffer sharer."""
    d = self.draw
    shape = list(shape)
    # re-use an existing const tensor of the same shape and role
    if self.cfg.get('reuse_const') and d(st.integers(0, self.cfg.get('reuse_odds', 3))) == 0:
      cands = [i for i, t in enumerate(self.tensors)
               if t['kind'] == 'const' and t['dtype'] == 'f32' and
               t['shape'] == shape and t.get('role') == role and
               bool(t.get('positive')) == positive]
      if cands:
        return d(st.sampled_from(cands))
    styles = (['positive'] if positive else
              (self.cfg.get('const_styles') or
               (CONST_STYLES_ALL if self.cfg.get('wild_consts') else CONST_STYLES_SANE)))
    t = {'name': self._name('const', op), 'shape': shape, 'dtype': 'f32',
         'kind': 'const', 'role': role, 'positive': positive,
         'data': {'seed': d(st.integers(0, 2**16)),
                  'style': d(st.sampled_from(styles)),
                  'mag': round(1.0 / math.sqrt(max(1, fan_in)), 4) if role != 'e' else 1.0}}
    if positive:
      t['rng'] = None
    # share the buffer of an earlier constant with the same shape
    if self.cfg.get('share_buffers') and d(st.integers(0, self.cfg.get('share_odds', 2))) == 0:
      cands = []
      for (si, sg_t) in self.cfg['_all_tensors']():
        for i, ot in enumerate(sg_t):
          if (ot['kind'] == 'const' and ot['dtype'] == 'f32' and
              ot['shape'] == shape and ot.get('share') is None and
              bool(ot.get('positive')) == positive):
            cands.append([si, i])
      if cands:
        t['share'] = d(st.sampled_from(cands))
        src = self.cfg['_tensor'](t['share'])
        t['data'] = copy.deepcopy(src['data'])
        if self.cfg.get('same_name_sharers') and t['share'][0] != self.si and d(st.integers(0, 2)) == 0:
          # the tied weight carries the same name in both functions
          t['name'] = src['name']
    self.tensors.append(t)
    return len(self.tensors) - 1

  def const_i(self, values, op=None):
    arr = np.array(values, np.int32)
    t = {'name': self._name('const', op), 'shape': list(arr.shape),
         'dtype': 'i32', 'kind': 'const', 'role': 'idx',
         'data': {'values': arr.reshape(-1).tolist()}}
    self.tensors.append(t)
    return len(self.tensors) - 1

  def node(self, op, ins, outs, opts=None):
    self.nodes.append({'op': op, 'in': list(ins), 'out': list(outs),
                       'opts': opts or {}})

  def runtime_f32(self):
    return [i for i, t in enumerate(self.tensors)
            if t['kind'] not in ('const', 'var') and t['dtype'] == 'f32']


def _pos(rng, lo_min=0.2):
  return rng is not None and rng[0] >= lo_min


def _applicable(g, x, cfg):
  """Op kinds that can take runtime tensor x as their (first) operand."""
  t = g.tensors[x]
  r = len(t['shape'])
  shape = t['shape']
  n = int(np.prod(shape))
  ops = []
  allow = cfg['ops']

  def add(o, w=1):
    if o in allow:
      ops.extend([o] * w)
  if r >= 2:
    add('FULLY_CONNECTED', 3)
  if r == 2:
    add('SVDF', 2)   # stateful; only when a check lists it explicitly
  add('GATE', 2)     # GREATER + SELECT (a BOOL tensor); only when listed explicitly
  add('CONSTVIEW', 2)  # RESHAPE/TRANSPOSE of a float constant; only when listed explicitly
  if r == 4:
    add('CONV_2D', 2)
    add('DEPTHWISE_CONV_2D', 2)
    add('TRANSPOSE_CONV', 1)
    add('AVERAGE_POOL_2D', 1)
    add('MAX_POOL_2D', 1)
  if r in (2, 3, 4):
    add('BATCH_MATMUL', 2)
  if n >= 2:
    add('RESHAPE', 2)
  add('SOFTMAX', 1)
  add('TANH', 1)
  add('LOGISTIC', 1)
  add('GELU', 1)
  if _pos(t.get('rng')):
    add('RSQRT', 3)
  if r >= 2:
    add('TRANSPOSE', 1)
  add('ADD', 2)
  add('SUB', 2)
  add('MUL', 2)
  if r >= 2:
    add('MEAN', 1)
  add('CONCATENATION', 2)
  if any(d >= 2 for d in shape):
    add('STRIDED_SLICE', 1)
  if any(d % 2 == 0 or d % 3 == 0 for d in shape if d >= 2):
    add('SPLIT', 1)
  add('RELU', 1)
  add('ABS', 1)
  add('NEG', 1)
  add('LEAKY_RELU', 1)
  add('MAXIMUM', 1)
  if r <= 4:
    add('PAD', 1)
  return ops


def _conv_out(n, k, s, same):
  if same:
    return -(-n // s)
  return -(-(n - k + 1) // s)


def _apply(g, op, x, cfg):
  """Append one node of kind `op` whose main operand is runtime tensor x."""
  d = g.draw
  t = g.tensors[x]
  shape = list(t['shape'])
  r = len(shape)
  rng = t.get('rng')
  act = lambda: d(st.sampled_from([0, 0, 1, 3]))  # NONE, RELU, RELU6

  if op == 'FULLY_CONNECTED':
    f = shape[-1]
    o = d(st.sampled_from(cfg['dim_choices'])) if cfg.get('dim_choices') else d(st.integers(1, 6))
    keep = r > 2 and d(st.booleans())
    oshape = shape[:-1] + [o] if (keep or r == 2) else [int(np.prod(shape[:-1])), o]
    w = g.const_f([o, f], f, op)
    plain = bool(cfg.get('fc_plain')) and d(st.integers(0, 3)) > 0   # no bias, NONE/RELU
    bias = -1 if plain else (g.const_f([o], 1, op, role='b') if d(st.integers(0, 3)) else -1)
    y = g.new_act(oshape, op)
    g.node(op, [x, w, bias], [y],
           {'fusedActivationFunction': d(st.sampled_from([0, 1])) if plain else act(), 'weightsFormat': 0,
            'keepNumDims': bool(keep), 'asymmetricQuantizeInputs': False})
  elif op == 'GATE':
    # y = SELECT(GREATER(x, thr), x, c): the mask is a BOOL tensor
    thr = g.const_f([1], 1, 'GREATER', role='e')
    g.tensors.append({'name': g._name('act', 'GREATER'), 'shape': list(shape), 'dtype': 'bool',
                      'kind': 'act', 'rng': None})
    mask = len(g.tensors) - 1
    g.node('GREATER', [x, thr], [mask], {})
    if cfg.get('gate_views', True) and d(st.integers(0, 2)) == 0:
      # the BOOL mask passes through data-movement ops (flattened and restored)
      n_el = int(np.prod(shape))
      for new_shape in ([n_el], list(shape)):
        g.tensors.append({'name': g._name('act', 'RESHAPE'), 'shape': list(new_shape), 'dtype': 'bool',
                          'kind': 'act', 'rng': None})
        nxt = len(g.tensors) - 1
        g.node('RESHAPE', [mask, g.const_i(new_shape, 'RESHAPE')], [nxt], {'newShape': list(new_shape)})
        mask = nxt
    other = g.const_f(shape, 1, 'SELECT', role='e')
    y = g.new_act(shape, 'SELECT')
    g.node('SELECT', [mask, x, other], [y], {})
  elif op == 'CONSTVIEW':
    # y = x (+|*) view(c): a float constant is the *data* operand of a
    # data-movement op (a transposed / reshaped table, as tied embeddings give)
    if r >= 2 and d(st.booleans()):
      perm = list(d(st.permutations(list(range(r)))))
      cshape = [0] * r
      for i, pp in enumerate(perm):
        cshape[pp] = shape[i]
      c = g.const_f(cshape, 1, 'TRANSPOSE', role='e')
      v = g.new_act(shape, 'TRANSPOSE')
      g.node('TRANSPOSE', [c, g.const_i(perm, 'TRANSPOSE')], [v], {})
    else:
      c = g.const_f([int(np.prod(shape))], 1, 'RESHAPE', role='e')
      v = g.new_act(shape, 'RESHAPE')
      g.node('RESHAPE', [c, g.const_i(shape, 'RESHAPE')], [v], {'newShape': list(shape)})
    y = g.new_act(shape, 'ADD')
    g.node(d(st.sampled_from(['ADD', 'MUL'])), [x, v], [y], {'fusedActivationFunction': 0})
  elif op == 'SVDF':
    # stateful: the last operand is a variable tensor the kernel shifts and
    # rewrites on every invocation (reset_all_variables() zeroes it)
    batch, f = shape
    rank = d(st.integers(1, 2))
    units = d(st.integers(1, 3))
    mem = d(st.integers(2, 4))
    wf = g.const_f([units * rank, f], f, op)
    wt = g.const_f([units * rank, mem], mem, op)
    bias = g.const_f([units], 1, op, role='b') if d(st.booleans()) else -1
    g.tensors.append({'name': g._name('act', op) + '/state', 'shape': [batch, mem * units * rank],
                      'dtype': 'f32', 'kind': 'var', 'rng': None})
    state = len(g.tensors) - 1
    y = g.new_act([batch, units], op)
    g.node(op, [x, wf, wt, bias, state], [y],
           {'rank': rank, 'fusedActivationFunction': d(st.sampled_from([0, 0, 1])),
            'asymmetricQuantizeInputs': False})
  elif op in ('CONV_2D', 'DEPTHWISE_CONV_2D'):
    _, h, wd, c = shape
    same = d(st.booleans())
    k = d(st.integers(1, min(3, h, wd)))
    s = d(st.integers(1, 2))
    oh, ow = _conv_out(h, k, s, same), _conv_out(wd, k, s, same)
    if op == 'CONV_2D':
      oc = d(st.integers(1, 4))
      w = g.const_f([oc, k, k, c], k * k * c, op)
      opts = {'padding': 0 if same else 1, 'strideW': s, 'strideH': s,
              'fusedActivationFunction': act(), 'dilationWFactor': 1,
              'dilationHFactor': 1}
    else:
      mult = d(st.integers(1, 2))
      oc = c * mult
      w = g.const_f([1, k, k, oc], k * k, op)
      opts = {'padding': 0 if same else 1, 'strideW': s, 'strideH': s,
              'depthMultiplier': mult, 'fusedActivationFunction': act(),
              'dilationWFactor': 1, 'dilationHFactor': 1}
    bias = g.const_f([oc], 1, op, role='b')
    y = g.new_act([shape[0], oh, ow, oc], op)
    g.node(op, [x, w, bias], [y], opts)
  elif op == 'TRANSPOSE_CONV':
    bsz, h, wd, c = shape
    same = d(st.booleans())
    k = d(st.integers(1, 3))
    s = d(st.integers(1, 2))
    oc = d(st.integers(1, 3))
    if same:
      oh, ow = h * s, wd * s
    else:
      oh, ow = (h - 1) * s + k, (wd - 1) * s + k
    osz = g.const_i([bsz, oh, ow, oc], op)
    w = g.const_f([oc, k, k, c], k * k * c, op)
    ins = [osz, w, x]
    if d(st.booleans()):
      ins.append(g.const_f([oc], 1, op, role='b'))
    y = g.new_act([bsz, oh, ow, oc], op)
    g.node(op, ins, [y], {'padding': 0 if same else 1, 'strideW': s,
                          'strideH': s, 'fusedActivationFunction': 0})
  elif op == 'BATCH_MATMUL':
    batch, mdim, kdim = shape[:-2], shape[-2], shape[-1]
    adj_y = d(st.booleans())
    variant = d(st.sampled_from(['const_rhs', 'const_rhs', 'runtime_rhs',
                                 'self', 'const_lhs']))
    ndim = d(st.integers(1, 5))
    if variant == 'runtime_rhs':
      want = [s2 for s2 in g.runtime_f32()
              if g.tensors[s2]['shape'][:-2] == batch and len(g.tensors[s2]['shape']) == r and
              ((g.tensors[s2]['shape'][-1] == kdim) if adj_y else
               (g.tensors[s2]['shape'][-2] == kdim))]
      if want:
        rhs = d(st.sampled_from(want))
        ndim = g.tensors[rhs]['shape'][-2] if adj_y else g.tensors[rhs]['shape'][-1]
        lhs = x
      else:
        variant = 'const_rhs'
    if variant == 'self':
      lhs, rhs, adj_y, ndim = x, x, True, mdim
    if variant == 'const_rhs':
      lhs = x
      rhs = g.const_f(batch + ([ndim, kdim] if adj_y else [kdim, ndim]), kdim, op)
    if variant == 'const_lhs':
      # x is the right operand: x is [.., K, N] (or [.., N, K] when adj_y)
      kk, nn = (shape[-1], shape[-2]) if adj_y else (shape[-2], shape[-1])
      mdim, ndim = d(st.integers(1, 4)), nn
      lhs = g.const_f(batch + [mdim, kk], kk, op)
      rhs = x
    y = g.new_act(batch + [mdim, ndim], op)
    g.node(op, [lhs, rhs], [y], {'adjX': False, 'adjY': bool(adj_y),
                                 'asymmetricQuantizeInputs': False})
  elif op in ('AVERAGE_POOL_2D', 'MAX_POOL_2D'):
    _, h, wd, c = shape
    same = d(st.booleans())
    k = d(st.integers(1, min(3, h, wd)))
    s = d(st.integers(1, 2))
    oh, ow = _conv_out(h, k, s, same), _conv_out(wd, k, s, same)
    y = g.new_act([shape[0], oh, ow, c], op, rng=rng)
    g.node(op, [x], [y], {'padding': 0 if same else 1, 'strideW': s,
                          'strideH': s, 'filterWidth': k, 'filterHeight': k,
                          'fusedActivationFunction': 0})
  elif op == 'RESHAPE':
    n = int(np.prod(shape))
    cands = set()
    for a in range(1, n + 1):
      if n % a:
        continue
      cands.add((a, n // a))
      for b2 in range(1, n // a + 1):
        if (n // a) % b2:
          continue
        cands.add((a, b2, n // a // b2))
        if a <= 3:
          for c2 in range(1, n // a // b2 + 1):
            if (n // a // b2) % c2 == 0:
              cands.add((a, b2, c2, n // a // b2 // c2))
    cands.add((n,))
    cands = sorted(c for c in cands if list(c) != shape and max(c) <= 64)
    new = list(d(st.sampled_from(cands))) if cands else [n]
    sh = g.const_i(new, op)
    y = g.new_act(new, op, rng=rng)
    opts = {'newShape': new} if d(st.booleans()) else {'_none': True}
    g.node(op, [x, sh], [y], opts)
  elif op == 'EMBEDDING_LOOKUP':
    raise AssertionError('handled as a source op')
  elif op in ('SOFTMAX', 'TANH', 'LOGISTIC', 'GELU', 'RSQRT', 'RELU', 'ABS',
              'NEG', 'LEAKY_RELU'):
    orng = None
    if op == 'RSQRT':
      orng = [1.0 / math.sqrt(rng[1]), 1.0 / math.sqrt(rng[0])]
    elif op in ('RELU', 'ABS') and rng:
      orng = rng
    y = g.new_act(shape, op, rng=orng)
    opts = {}
    if op == 'SOFTMAX':
      opts = {'beta': 1.0}
    elif op == 'GELU':
      opts = {'approximate': d(st.booleans())}
    elif op == 'LEAKY_RELU':
      opts = {'alpha': 0.2}
    g.node(op, [x], [y], opts)
  elif op == 'TRANSPOSE':
    perm = list(d(st.permutations(list(range(r)))))
    y = g.new_act([shape[p] for p in perm], op, rng=rng)
    g.node(op, [x, g.const_i(perm, op)], [y], {})
  elif op in ('ADD', 'SUB', 'MUL', 'MAXIMUM'):
    kinds = ['runtime', 'runtime', 'self', 'const', 'const_vec', 'const_1']
    kind = d(st.sampled_from(kinds))
    other = None
    if kind == 'runtime':
      same = [i for i in g.runtime_f32() if g.tensors[i]['shape'] == shape and i != x]
      if same:
        other = d(st.sampled_from(same))
      else:
        kind = 'const'
    if kind == 'self':
      other = x
    positive = _pos(rng) and d(st.booleans())
    if kind == 'const':
      other = g.const_f(shape, 1, op, role='e', positive=positive)
    elif kind == 'const_vec':
      other = g.const_f([shape[-1]], 1, op, role='e', positive=positive)
    elif kind == 'const_1':
      other = g.const_f([1], 1, op, role='e', positive=positive)
    orng = None
    o_t = g.tensors[other]
    o_rng = o_t.get('rng')
    if o_t['kind'] == 'const' and o_t.get('positive'):
      m0 = o_t['data']['mag']
      o_rng = [0.01 * m0, 6.0 * m0]
    if rng and o_rng:
      if op == 'ADD':
        orng = [rng[0] + o_rng[0], rng[1] + o_rng[1]]
      elif op == 'MUL':
        orng = [rng[0] * o_rng[0], rng[1] * o_rng[1]]
      elif op == 'MAXIMUM':
        orng = [max(rng[0], o_rng[0]), max(rng[1], o_rng[1])]
    elif op == 'MAXIMUM' and (rng or o_rng):
      orng = None
    ins = [x, other] if d(st.booleans()) else [other, x]
    y = g.new_act(shape, op, rng=orng)
    opts = {'fusedActivationFunction': 0}
    if op in ('ADD', 'SUB'):
      opts['potScaleInt16'] = True
    if op == 'MAXIMUM':
      opts = {}
    g.node(op, ins, [y], opts)
  elif op == 'MEAN':
    naxes = d(st.integers(1, max(1, min(2, r - 1))))
    axes = sorted(d(st.lists(st.integers(0, r - 1), min_size=naxes,
                             max_size=naxes, unique=True)))
    keep = d(st.booleans())
    oshape = [(1 if i in axes else s) for i, s in enumerate(shape)
              if keep or i not in axes]
    y = g.new_act(oshape, op, rng=rng)
    # axes may be given negative (counted from the end), as Keras exports them
    enc = [a - r if d(st.integers(0, 3)) == 0 else a for a in axes]
    g.node(op, [x, g.const_i(enc, op)], [y], {'keepDims': bool(keep)})
  elif op == 'CONCATENATION':
    axis = d(st.integers(0, r - 1))
    def compatible(s2):
      return len(s2) == r and all(a == b2 for i, (a, b2) in enumerate(zip(s2, shape)) if i != axis)
    pool = [i for i in g.runtime_f32() if compatible(g.tensors[i]['shape'])]
    nin = d(st.integers(2, 3))
    ins = [x]
    for _ in range(nin - 1):
      kind = d(st.sampled_from(['runtime', 'runtime', 'self', 'const', 'const']))
      if kind == 'runtime':
        ins.append(d(st.sampled_from(pool)))
      elif kind == 'self':
        ins.append(x)
      else:
        cs = list(shape)
        cs[axis] = d(st.integers(1, 3))
        ins.append(g.const_f(cs, 1, op, role='e'))
    if d(st.booleans()):
      ins = ins[::-1]
    oshape = list(shape)
    oshape[axis] = sum(g.tensors[i]['shape'][axis] for i in ins)
    rngs = [g.tensors[i].get('rng') for i in ins]
    orng = ([min(q[0] for q in rngs), max(q[1] for q in rngs)]
            if all(rngs) else None)
    y = g.new_act(oshape, op, rng=orng)
    g.node(op, ins, [y], {'axis': axis - r if d(st.integers(0, 3)) == 0 else axis,
                          'fusedActivationFunction': 0})
  elif op == 'STRIDED_SLICE':
    begin, end, strides, oshape = [], [], [], []
    for dim in shape:
      b0 = d(st.integers(0, dim - 1))
      e0 = d(st.integers(b0 + 1, dim))
      s0 = d(st.integers(1, 2))
      begin.append(b0); end.append(e0); strides.append(s0)
      oshape.append(-(-(e0 - b0) // s0))
    y = g.new_act(oshape, op, rng=rng)
    g.node(op, [x, g.const_i(begin, op), g.const_i(end, op),
                g.const_i(strides, op)], [y],
           {'beginMask': 0, 'endMask': 0, 'ellipsisMask': 0, 'newAxisMask': 0,
            'shrinkAxisMask': 0, 'offset': False})
  elif op == 'SPLIT':
    axes = [(i, k) for i, dim in enumerate(shape) for k in (2, 3)
            if dim >= k and dim % k == 0]
    axis, k = d(st.sampled_from(axes))
    oshape = list(shape)
    oshape[axis] //= k
    ax = g.const_i(axis - r if d(st.integers(0, 3)) == 0 else axis, op)  # scalar
    outs = [g.new_act(oshape, op, rng=rng) for _ in range(k)]
    g.node(op, [ax, x], outs, {'numSplits': k})
  elif op == 'PAD':
    pads = [[d(st.integers(0, 1)), d(st.integers(0, 1))] for _ in shape]
    oshape = [s + p[0] + p[1] for s, p in zip(shape, pads)]
    y = g.new_act(oshape, op)
    g.node(op, [x, g.const_i(pads, op)], [y], {})
  else:
    raise KeyError(op)


def _embedding_source(g):
  d = g.draw
  vocab, dim, n = d(st.integers(2, 8)), d(st.integers(1, 6)), d(st.integers(1, 4))
  ids = g.new_input([n], 'i32', dom=[0, vocab])
  table = g.const_f([vocab, dim], 1, 'EMBEDDING_LOOKUP', role='t')
  y = g.new_act([n, dim], 'EMBEDDING_LOOKUP')
  g.node('EMBEDDING_LOOKUP', [ids, table], [y], {})


DEFAULT_CFG = {
    'ops': ALL_OPS, 'max_nodes': 8, 'max_subgraphs': 1,
    'reuse_const': False, 'share_buffers': False, 'dedup': False,
    'wild_consts': False, 'collide_names': False, 'export_prob': True,
    'positive_inputs': True, 'min_nodes': 1,
}


@st.composite
def model_specs(draw, **kw):
  cfg = dict(DEFAULT_CFG)
  cfg.update(kw)
  if cfg['reuse_const'] and not cfg.get('dim_choices') and draw(st.integers(0, 2)) == 0:
    # a sub-population with few distinct sizes, so that constants of equal
    # shape (hence re-used / shared ones) are common
    cfg['dim_choices'] = [2, 4]
    cfg['reuse_odds'] = 1
  names = _Names()
  nsg = draw(st.integers(min(cfg.get('min_subgraphs', 1), cfg['max_subgraphs']), cfg['max_subgraphs']))
  sgs = []
  cfg['_all_tensors'] = lambda: [(i, s.tensors) for i, s in enumerate(sgs)]
  cfg['_tensor'] = lambda ref: sgs[ref[0]].tensors[ref[1]]
  for si in range(nsg):
    g = _SG(names, si, draw, cfg)
    sgs.append(g)
    fam = cfg['force_fam'] if cfg.get('force_fam') else draw(st.sampled_from([2, 2, 3, 4, 4]))
    nin = draw(st.integers(1, 2))
    for _ in range(nin):
      if fam == 2 and cfg.get('dim_choices'):
        shape = [draw(st.integers(1, 2)), draw(st.sampled_from(cfg['dim_choices']))]
      elif fam == 2:
        shape = [draw(st.integers(1, 3)), draw(st.integers(2, 8))]
      elif fam == 3 and cfg.get('force_fam') and cfg.get('dim_choices'):
        shape = [draw(st.integers(1, 2)), draw(st.integers(1, 4)), draw(st.sampled_from(cfg['dim_choices']))]
      elif fam == 3:
        shape = [draw(st.integers(1, 2)), draw(st.integers(1, 4)), draw(st.integers(2, 8))]
      else:
        shape = [1, draw(st.integers(2, 6)), draw(st.integers(2, 6)), draw(st.integers(1, 4))]
      if g.inputs and draw(st.booleans()):
        shape = list(g.tensors[g.inputs[0]]['shape'])
      positive = cfg.get('force_positive') or (cfg['positive_inputs'] and draw(st.integers(0, 3)) == 0)
      g.new_input(shape, 'f32', dom=[0.5, 2.0] if positive else None,
                  mag=draw(st.sampled_from([0.3, 1.0, 1.0, 3.0])))
    nnodes = draw(st.integers(cfg['min_nodes'], cfg['max_nodes']))
    if nsg >= 2 and cfg.get('empty_subgraphs', True) and draw(st.integers(0, 9)) == 0:
      nnodes = 0   # a signature that just returns its argument(s): no operators
    # a sub-population of "hub" graphs: most operators read the first graph
    # input, so one tensor has many consumer slots (>= 9 with repeated operands)
    hub = bool(nnodes and cfg.get('hubs', True) and cfg['max_nodes'] >= 4 and draw(st.integers(0, 7)) == 0)
    if hub:
      nnodes = draw(st.integers(5, 12))
    for _ in range(nnodes):
      if 'EMBEDDING_LOOKUP' in cfg['ops'] and draw(st.integers(0, 19)) == 0:
        _embedding_source(g)
        continue
      rt = g.runtime_f32()
      # prefer recent tensors (chains) but allow any (multi-consumer)
      idx = draw(st.integers(0, len(rt) - 1))
      if draw(st.booleans()):
        idx = len(rt) - 1 - min(idx, len(rt) - 1) // 3
      if hub and draw(st.integers(0, 4)):
        idx = 0
      x = rt[idx]
      ops = _applicable(g, x, cfg)
      if not ops:
        if 'EMBEDDING_LOOKUP' in cfg['ops']:
          _embedding_source(g)
        continue
      _apply(g, draw(st.sampled_from(ops)), x, cfg)
    # a dynamic batch dimension propagates to what is computed from it (the
    # converter writes shape_signature on every such tensor, static extent kept)
    for n in g.nodes:
      srcs = [g.tensors[t] for t in n['in'] if t >= 0 and g.tensors[t].get('shape_signature')]
      for t in n['out']:
        ot = g.tensors[t]
        if srcs and ot['shape'] and any(ot['shape'][0] == s0['shape'][0] for s0 in srcs) and \
            n['op'] not in ('TRANSPOSE', 'RESHAPE', 'MEAN', 'STRIDED_SLICE', 'SPLIT', 'EMBEDDING_LOOKUP'):
          ot['shape_signature'] = [-1] + list(ot['shape'][1:])
    consumed = {t for n in g.nodes for t in n['in'] if t >= 0}
    produced = [t for n in g.nodes for t in n['out']]
    sinks = [t for t in produced if t not in consumed]
    extra = []
    if cfg['export_prob']:
      inner = [t for t in produced if t in consumed]
      for t in inner:
        if draw(st.integers(0, 3)) == 0:
          extra.append(t)
    if cfg.get('unused_results'):
      # a result of a multi-output operator that nothing reads and the function
      # does not return (tf.split / unstack with unused parts stay in the graph)
      for n in g.nodes:
        if len(n['out']) >= 2:
          dead = [t for t in n['out'] if t in sinks]
          if dead and len(sinks) + len(extra) > 1 and draw(st.integers(0, 2)) == 0:
            sinks.remove(draw(st.sampled_from(dead)))
    outs = sinks + extra
    if not outs:  # no node was applicable
      outs = [g.inputs[0]]
    if cfg.get('passthrough', True) and g.nodes and draw(st.integers(0, 11)) == 0:
      # the function also returns one of its float arguments unchanged
      f32_in = [t for t in g.inputs if g.tensors[t]['dtype'] == 'f32' and t not in outs]
      if f32_in:
        outs.append(draw(st.sampled_from(f32_in)))
    if cfg.get('const_outputs') and g.nodes and draw(st.integers(0, 7)) == 0:
      # the function also returns one of its float constants (a "get the table"
      # result); such a tensor may have no operator attached to it at all
      fc = [i for i, t in enumerate(g.tensors) if t['kind'] == 'const' and t['dtype'] == 'f32']
      if fc:
        c = draw(st.sampled_from(fc))
        if cfg.get('share_buffers') and g.tensors[c].get('share') is None and draw(st.booleans()):
          # ... as a tensor of its own on the same buffer, attached to no operator
          twin = copy.deepcopy(g.tensors[c])
          twin['name'] = names.fresh(twin['name'] + '_out')
          twin['share'] = [si, c]
          g.tensors.append(twin)
          c = len(g.tensors) - 1
        outs.append(c)
    outs = list(draw(st.permutations(outs)))
    if cfg.get('dup_outputs', True) and draw(st.integers(0, 11)) == 0:
      # a function returning one tensor under two names lists it twice
      outs.insert(draw(st.integers(0, len(outs))), draw(st.sampled_from(outs)))
    order = [draw(st.integers(0, 3)) for _ in g.nodes]
    # unused graph inputs are legal in TFLite but the converter prunes them:
    used_inputs = [t for t in g.inputs if t in consumed or t in outs]
    sgs[si] = g
    g.final = {
        'name': 'main' if si == 0 else 'sub_%d' % si,
        'sig': 'serving_default' if nsg == 1 else 'sig_%d' % si,
        'argprefix': 'arg%d' % si,
        'tensors': g.tensors, 'nodes': g.nodes, 'order': order,
        'inputs': used_inputs if used_inputs else g.inputs[:1],
        'outputs': outs}
    if draw(st.integers(0, 2)) == 0:
      g.final['sig_out_perm'] = list(draw(st.permutations(list(range(len(outs))))))
      g.final['sig_in_perm'] = list(draw(st.permutations(list(range(len(g.final['inputs']))))))
  spec = {'subgraphs': [g.final for g in sgs], 'dedup': bool(cfg['dedup'] and draw(st.booleans()))}
  if nsg >= 2 and draw(st.integers(0, 2)) == 0:
    spec['sig_order'] = list(draw(st.permutations(list(range(nsg)))))
  return _clean(spec)


def _prune(spec):
  """Remove tensors no operator or graph input/output refers to (the converter
  leaves no dangling tensors) and re-index."""
  remaps = []
  for sg in spec['subgraphs']:
    used = set(sg['inputs']) | set(sg['outputs'])
    for n in sg['nodes']:
      used.update(t for t in n['in'] + n['out'] if t >= 0)
    remap, k = {}, 0
    for i in range(len(sg['tensors'])):
      if i in used:
        remap[i] = k
        k += 1
    remaps.append(remap)
  for si, sg in enumerate(spec['subgraphs']):
    remap = remaps[si]
    sg['tensors'] = [t for i, t in enumerate(sg['tensors']) if i in remap]
    for t in sg['tensors']:
      sh = t.get('share')
      if sh is not None:
        if sh[1] in remaps[sh[0]]:
          t['share'] = [sh[0], remaps[sh[0]][sh[1]]]
        else:
          t['share'] = None
    for n in sg['nodes']:
      n['in'] = [remap[t] if t >= 0 else -1 for t in n['in']]
      n['out'] = [remap[t] for t in n['out']]
    sg['inputs'] = [remap[t] for t in sg['inputs']]
    sg['outputs'] = [remap[t] for t in sg['outputs']]
  return spec


def _clean(spec):
  """Strip generator-only bookkeeping that is not needed to rebuild."""
  spec = _prune(copy.deepcopy(spec))
  for sg in spec['subgraphs']:
    for t in sg['tensors']:
      t.pop('role', None)
      if t.get('shape_signature') is None:
        t.pop('shape_signature', None)
  return spec


# --------------------------------------------------------------------------
# features / labels
# --------------------------------------------------------------------------
def features(spec):
  """Set of topology feature labels of a model spec."""
  f = set()
  f.add('subgraphs=%d' % len(spec['subgraphs']))
  if spec.get('dedup'):
    f.add('dedup')
  if spec.get('sig_order') and spec['sig_order'] != sorted(spec['sig_order']):
    f.add('signatures_not_in_subgraph_order')
  for si, sg in enumerate(spec['subgraphs']):
    order = emit_order(sg)
    pos = {ni: k for k, ni in enumerate(order)}
    slots = {}
    for n in sg['nodes']:
      for t in n['in']:
        if t >= 0 and sg['tensors'][t]['kind'] != 'const':
          slots[t] = slots.get(t, 0) + 1
    if slots and max(slots.values()) >= 9:
      f.add('hub>=9_consumer_slots')
    if len(set(sg['outputs'])) < len(sg['outputs']):
      f.add('tensor_listed_twice_in_outputs')
    if not sg['nodes']:
      f.add('subgraph_without_operators')
    elif set(sg['inputs']) & set(sg['outputs']):
      f.add('input_is_also_output')
    cons = {}
    for ni, n in enumerate(sg['nodes']):
      f.add('op:' + n['op'])
      seen = set()
      for t in n['in']:
        if t < 0:
          f.add('optional_bias_absent')
          continue
        if t in seen and sg['tensors'][t]['kind'] != 'const':
          f.add('repeated_operand')
        seen.add(t)
        cons.setdefault(t, set()).add(ni)
      if n['op'] not in SUPPORTED:
        f.add('unsupported_op')
    producer = {t: ni for ni, n in enumerate(sg['nodes']) for t in n['out']}
    for t, c in cons.items():
      kind = sg['tensors'][t]['kind']
      if len(c) > 1:
        f.add('multi_consumer_const' if kind == 'const' else 'multi_consumer')
        if kind != 'const' and any(sg['nodes'][ni]['op'] == 'CONCATENATION' for ni in c):
          f.add('concat_of_shared')
    for t in sg['outputs']:
      if t in cons:
        f.add('exported_and_consumed')
      if t in producer and pos[producer[t]] == 0:
        f.add('exported_producer_at_0')
      if t in sg['inputs']:
        f.add('input_is_output')
    for t in sg['tensors']:
      if t.get('share') is not None:
        f.add('shared_buffer' + ('_cross_sg' if t['share'][0] != si else ''))
    if order != sorted(order):
      f.add('reordered')
    f.add('nodes=%d' % min(len(sg['nodes']), 12))
  return f


INTERACTION = {'multi_consumer', 'repeated_operand', 'exported_and_consumed',
               'exported_producer_at_0', 'concat_of_shared', 'unsupported_op',
               'multi_consumer_const', 'shared_buffer', 'shared_buffer_cross_sg',
               'dedup'}


# --------------------------------------------------------------------------
# derived specs: single-op models (per-op translation validation)
# --------------------------------------------------------------------------
def single_op_spec(sg, node, const_values_by_pos):
  """A one-subgraph spec containing only `node`.

  const_values_by_pos: {input position: ndarray} operands that are constants in
  the program being validated (real values); all other float/int operands become
  graph inputs.  Returns (spec, [input positions that are graph inputs]).
  """
  tensors, ins, node_in, feed_pos = [], [], [], []
  seen = {}
  for pos, t in enumerate(node['in']):
    if t < 0:
      node_in.append(-1)
      continue
    src = sg['tensors'][t]
    if pos in const_values_by_pos:
      v = np.asarray(const_values_by_pos[pos])
      tensors.append({'name': 'c%d' % pos, 'shape': list(src['shape']),
                      'dtype': src['dtype'], 'kind': 'const',
                      'data': {'values': v.reshape(-1).tolist()}})
      node_in.append(len(tensors) - 1)
      continue
    if t in seen:
      node_in.append(seen[t])
      continue
    tensors.append({'name': 'x%d' % pos, 'shape': list(src['shape']),
                    'dtype': src['dtype'], 'kind': 'in', 'dom': src.get('dom'),
                    'mag': 1.0})
    seen[t] = len(tensors) - 1
    ins.append(len(tensors) - 1)
    feed_pos.append(pos)
    node_in.append(len(tensors) - 1)
  outs = []
  for k, t in enumerate(node['out']):
    src = sg['tensors'][t]
    tensors.append({'name': 'y%d' % k, 'shape': list(src['shape']),
                    'dtype': src['dtype'], 'kind': 'act'})
    outs.append(len(tensors) - 1)
  spec = {'subgraphs': [{
      'name': 'main', 'sig': 'serving_default', 'argprefix': 'a',
      'tensors': tensors,
      'nodes': [{'op': node['op'], 'in': node_in, 'out': outs,
                 'opts': node.get('opts', {})}],
      'order': [0], 'inputs': ins, 'outputs': outs}], 'dedup': False}
  return spec, feed_pos


def sharer_groups(mspec, min_rank=0):
  """Lists of output names of the ops consuming one shared constant (tensor or buffer)."""
  by_const = {}
  for si, sg in enumerate(mspec['subgraphs']):
    for n in sg['nodes']:
      for t in set(x for x in n['in'] if x >= 0):
        tt = sg['tensors'][t]
        if tt['kind'] != 'const' or tt['dtype'] != 'f32' or len(tt['shape']) < min_rank:
          continue
        key = tuple(tt['share']) if tt.get('share') is not None else (si, t)
        by_const.setdefault(key, []).append(sg['tensors'][n['out'][0]]['name'])
  return [sorted(set(v)) for v in by_const.values() if len(set(v)) >= 2]


def to_external(model_bytes):
  """The same model with every tensor constant stored after the flatbuffer
  (Buffer.offset/size, 16-byte aligned) - the form a > 2 GB model necessarily has."""
  import flatbuffers
  root = S.Model.GetRootAs(bytes(model_bytes), 0)
  m = S.ModelT.InitFromObj(root)
  used = set()
  for g in m.subgraphs:
    for t in g.tensors:
      used.add(int(t.buffer))
  datas = {}
  for i, b in enumerate(m.buffers):
    if i in used and b.data is not None and len(b.data):
      datas[i] = (b.data.tobytes() if isinstance(b.data, np.ndarray) else bytes(bytearray(b.data)))
      b.data = None
      b.offset, b.size = 1, 1   # non-default placeholders keep the table size fixed

  def pack():
    bld = flatbuffers.Builder(1024)
    bld.Finish(m.Pack(bld), file_identifier=b'TFL3')
    return bytes(bld.Output())
  first = pack()
  pos = len(first) + (-len(first)) % 16
  for i in sorted(datas):
    m.buffers[i].offset, m.buffers[i].size = pos, len(datas[i])
    pos += len(datas[i]) + (-len(datas[i])) % 16
  out = bytearray(pack())
  assert len(out) == len(first)
  for i in sorted(datas):
    out += b'\0' * (m.buffers[i].offset - len(out))
    out += datas[i]
  return bytes(out)
