"""Independent TFLite flatbuffer reader and storage-format decoder.

Shares no code with ai_edge_quantizer.  Uses only the generated schema classes
from ai_edge_litert (trusted base) and parses the *raw* flatbuffer so that
`offset/size` of external buffers survive (tensorflow's flatbuffer_utils folds
them back into `data`).
"""
import numpy as np
from ai_edge_litert import schema_py_generated as S

TT = S.TensorType
TYPE_NAME = {v: k for k, v in TT.__dict__.items() if not k.startswith('_')}
OP_NAME = {v: k for k, v in S.BuiltinOperator.__dict__.items()
           if not k.startswith('_')}
OP_CODE = {k: v for k, v in S.BuiltinOperator.__dict__.items()
           if not k.startswith('_')}

# numpy dtype and bits per element for the tensor types we may meet.
NP_DTYPE = {
    TT.FLOAT32: np.dtype('<f4'), TT.FLOAT16: np.dtype('<f2'),
    TT.FLOAT64: np.dtype('<f8'),
    TT.INT32: np.dtype('<i4'), TT.INT64: np.dtype('<i8'),
    TT.INT16: np.dtype('<i2'), TT.INT8: np.dtype('i1'),
    TT.UINT8: np.dtype('u1'), TT.BOOL: np.dtype('u1'),
    TT.UINT32: np.dtype('<u4'), TT.UINT16: np.dtype('<u2'),
    TT.UINT64: np.dtype('<u8'),
}
BITS = {TT.FLOAT32: 32, TT.FLOAT16: 16, TT.FLOAT64: 64, TT.INT32: 32,
        TT.INT64: 64, TT.INT16: 16, TT.INT8: 8, TT.UINT8: 8, TT.BOOL: 8,
        TT.INT4: 4, TT.UINT32: 32, TT.UINT16: 16, TT.UINT64: 64}
INT_RANGE = {TT.INT4: (-8, 7), TT.INT8: (-128, 127), TT.INT16: (-32768, 32767),
             TT.INT32: (-2**31, 2**31 - 1), TT.INT64: (-2**63, 2**63 - 1),
             TT.UINT8: (0, 255)}
INT_TYPES = (TT.INT4, TT.INT8, TT.INT16, TT.INT32, TT.INT64, TT.UINT8)
FLOAT_TYPES = (TT.FLOAT32, TT.FLOAT16, TT.FLOAT64)


def _plain(v):
  if v is None:
    return None
  if isinstance(v, np.ndarray):
    return v.tolist()
  if isinstance(v, (bytes, bytearray)):
    return bytes(v)
  if isinstance(v, (list, tuple)):
    return [_plain(x) for x in v]
  if hasattr(v, '__dict__') and not isinstance(v, type):
    return {k: _plain(x) for k, x in vars(v).items()}
  if isinstance(v, (np.integer,)):
    return int(v)
  if isinstance(v, (np.floating,)):
    return float(v)
  return v


def _lst(v):
  if v is None:
    return []
  return [int(x) for x in v]


def parse(model_bytes):
  """Raw-parse a .tflite byte string into a plain dict graph."""
  model_bytes = bytes(model_bytes)
  root = S.Model.GetRootAs(model_bytes, 0)
  m = S.ModelT.InitFromObj(root)
  out = {'version': m.version, 'description': _plain(m.description),
         'nbytes': len(model_bytes)}
  out['opcodes'] = []
  for c in (m.operatorCodes or []):
    code = max(int(c.builtinCode), int(c.deprecatedBuiltinCode))
    out['opcodes'].append({'code': code, 'builtin': int(c.builtinCode),
                           'deprecated': int(c.deprecatedBuiltinCode),
                           'custom': _plain(c.customCode),
                           'version': int(c.version)})
  out['buffers'] = []
  for b in (m.buffers or []):
    data = None
    if b.data is not None:
      data = (b.data.tobytes() if isinstance(b.data, np.ndarray)
              else bytes(bytearray(b.data)))
    out['buffers'].append({'data': data, 'offset': int(b.offset or 0),
                           'size': int(b.size or 0)})
  out['subgraphs'] = []
  for g in (m.subgraphs or []):
    tensors = []
    for t in (g.tensors or []):
      q = t.quantization
      scale = zp = None
      qdim = 0
      qmin = qmax = None
      if q is not None:
        if q.scale is not None and len(q.scale):
          scale = [float(np.float32(x)) for x in q.scale]
        if q.zeroPoint is not None and len(q.zeroPoint):
          zp = [int(x) for x in q.zeroPoint]
        qdim = int(q.quantizedDimension or 0)
        qmin = _plain(q.min)
        qmax = _plain(q.max)
      tensors.append({
          'name': t.name.decode('utf-8', 'replace') if t.name is not None else None,
          'shape': _lst(t.shape) if t.shape is not None else None,
          'shape_signature': (_lst(t.shapeSignature)
                              if t.shapeSignature is not None else None),
          'type': int(t.type), 'buffer': int(t.buffer),
          'scale': scale, 'zp': zp, 'qdim': qdim,
          'has_q': q is not None, 'qmin': qmin, 'qmax': qmax,
          'is_variable': bool(t.isVariable),
      })
    ops = []
    for o in (g.operators or []):
      idx = int(o.opcodeIndex)
      code = None
      if 0 <= idx < len(out['opcodes']):
        code = out['opcodes'][idx]['code']
      ops.append({'opcode_index': idx, 'code': code,
                  'inputs': _lst(o.inputs), 'outputs': _lst(o.outputs),
                  'opts_type': int(o.builtinOptionsType or 0),
                  'opts': _plain(o.builtinOptions),
                  'opts2_type': int(getattr(o, 'builtinOptions2Type', 0) or 0),
                  'custom_options': _plain(o.customOptions),
                  'intermediates': _lst(o.intermediates),
                  'mutating': _plain(o.mutatingVariableInputs)})
    out['subgraphs'].append({
        'name': _plain(g.name), 'tensors': tensors, 'ops': ops,
        'inputs': _lst(g.inputs), 'outputs': _lst(g.outputs)})
  out['signatures'] = []
  for sd in (m.signatureDefs or []):
    out['signatures'].append({
        'key': sd.signatureKey.decode() if isinstance(sd.signatureKey, bytes) else sd.signatureKey,
        'subgraph': int(sd.subgraphIndex),
        'inputs': [((i.name.decode() if isinstance(i.name, bytes) else i.name),
                    int(i.tensorIndex)) for i in (sd.inputs or [])],
        'outputs': [((i.name.decode() if isinstance(i.name, bytes) else i.name),
                     int(i.tensorIndex)) for i in (sd.outputs or [])]})
  out['metadata'] = [((x.name.decode() if isinstance(x.name, bytes) else x.name),
                      int(x.buffer)) for x in (m.metadata or [])]
  return out


def num_elements(shape):
  n = 1
  for d in (shape or []):
    n *= int(d)
  return n


def expected_nbytes(ttype, shape):
  """Byte length implied by dtype and shape per the TFLite storage format."""
  n = num_elements(shape)
  bits = BITS[ttype]
  return (n * bits + 7) // 8


def buffer_bytes(model, buf_index, raw=None):
  """Bytes of a buffer; follows offset/size into `raw` for external buffers."""
  b = model['buffers'][buf_index]
  if b['data'] is not None:
    return b['data']
  if b['offset'] > 1 and raw is not None:
    return bytes(raw[b['offset']: b['offset'] + b['size']])
  return None


def decode(ttype, shape, data):
  """Decode stored bytes into an ndarray of logical values.

  INT4: two values per byte, low nibble first, two's complement; a trailing
  half byte is padding.
  """
  n = num_elements(shape)
  if ttype == TT.INT4:
    raw = np.frombuffer(data, np.uint8)
    lo = (raw & 0x0F).astype(np.int16)
    hi = ((raw >> 4) & 0x0F).astype(np.int16)
    vals = np.empty(raw.size * 2, np.int16)
    vals[0::2] = lo
    vals[1::2] = hi
    vals = np.where(vals >= 8, vals - 16, vals)[:n]
    return vals.astype(np.int8).reshape(shape if shape else ())
  dt = NP_DTYPE[ttype]
  arr = np.frombuffer(data, dt, count=n)
  return arr.reshape(shape if shape else ())


def dequantize(values, scale, zp, qdim, shape=None):
  """(int64(q) - zp) * float64(scale), per-channel along qdim when len>1."""
  q = np.asarray(values).astype(np.int64)
  scale = np.asarray(scale, np.float64)
  zp = np.asarray(zp if zp is not None else [0] * scale.size, np.int64)
  if scale.size == 1:
    return (q - zp.reshape(-1)[0]).astype(np.float64) * float(scale.reshape(-1)[0])
  bshape = [1] * q.ndim
  bshape[qdim] = scale.size
  if zp.size == 1:
    zp = np.full(scale.size, int(zp.reshape(-1)[0]), np.int64)
  return ((q - zp.reshape(bshape)).astype(np.float64) * scale.reshape(bshape))


def tensor_constant(model, sg_index, t_index, raw=None):
  """Decoded stored values of a constant tensor, or None for activations."""
  t = model['subgraphs'][sg_index]['tensors'][t_index]
  if not (0 <= t['buffer'] < len(model['buffers'])):
    return None
  data = buffer_bytes(model, t['buffer'], raw)
  if data is None or len(data) == 0:
    return None
  return decode(t['type'], t['shape'], data)


def tensor_real_values(model, sg_index, t_index, raw=None):
  """Real (float64) values a constant tensor denotes: dequantized if needed."""
  t = model['subgraphs'][sg_index]['tensors'][t_index]
  v = tensor_constant(model, sg_index, t_index, raw)
  if v is None:
    return None
  if t['scale'] is not None and t['type'] in INT_TYPES:
    return dequantize(v, t['scale'], t['zp'], t['qdim'])
  return v.astype(np.float64) if t['type'] in FLOAT_TYPES else v


def producers(sg):
  """tensor index -> list of op indices producing it."""
  prod = {}
  for oi, op in enumerate(sg['ops']):
    for t in op['outputs']:
      if t >= 0:
        prod.setdefault(t, []).append(oi)
  return prod


def consumers(sg):
  cons = {}
  for oi, op in enumerate(sg['ops']):
    for t in op['inputs']:
      if t >= 0:
        cons.setdefault(t, []).append(oi)
  return cons


def is_const(model, t):
  b = t['buffer']
  if not (0 <= b < len(model['buffers'])):
    return False
  bb = model['buffers'][b]
  return (bb['data'] is not None and len(bb['data']) > 0) or bb['offset'] > 1


def summarize(model):
  """Short human readable dump (for replays / debugging)."""
  lines = []
  lines.append('opcodes %s nbuffers %d' % (
      [OP_NAME.get(c['code'], c['code']) for c in model['opcodes']],
      len(model['buffers'])))
  for si, sg in enumerate(model['subgraphs']):
    lines.append(' subgraph %d inputs %s outputs %s' % (si, sg['inputs'], sg['outputs']))
    for ti, t in enumerate(sg['tensors']):
      q = ''
      if t['scale'] is not None:
        q = ' scale=%s zp=%s qd=%s' % (t['scale'][:3], (t['zp'] or [])[:3], t['qdim'])
      b = model['buffers'][t['buffer']] if 0 <= t['buffer'] < len(model['buffers']) else None
      bl = None if b is None or b['data'] is None else len(b['data'])
      lines.append('   t%d %s %s %s buf=%d(%s)%s' % (
          ti, t['name'], TYPE_NAME.get(t['type']), t['shape'], t['buffer'], bl, q))
    for oi, op in enumerate(sg['ops']):
      lines.append('   op%d %s in=%s out=%s' % (
          oi, OP_NAME.get(op['code'], op['code']), op['inputs'], op['outputs']))
  for s in model['signatures']:
    lines.append(' sig %s sg=%d in=%s out=%s' % (s['key'], s['subgraph'], s['inputs'], s['outputs']))
  return '\n'.join(lines)
