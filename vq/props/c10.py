"""C10 - calibration and quantization select the same ops; stats are never missing."""
import os
import re

from hypothesis import strategies as st

from vq import core, engine, fb
from vq.core import Violation
from vq.gen import graph as G
from vq.gen import recipes as R
from vq.props import c03
from vq.ref import plan

META = {
    'level': 'exploration',
    'rule': ('Generated single- and multi-signature models x rule sequences '
             'whose regexes come from the full alphabet built from the model\'s '
             'own tensor names (".*", full names, ^name$, name$, name;, '
             'prefixes, scope prefixes, substrings) x mostly static configs; '
             'every signature calibrated in turn, resumed from the previous '
             'result. Non-trivial = some accepted rule has a regex on which the '
             'two scope encodings could differ (ends in "$", contains ";") or '
             'targets an op with >= 2 outputs; distinct by case hash.'),
    'assumptions': ['expected key set = operand names of the ops the reference resolver selects for a min/max algorithm rule, under the quantization-side scope encoding'],
}

MISSING = re.compile(r'not found in tensor_name_to_qsv|min and max must be provided|QSVs\) are required')


@st.composite
def cases(draw, tier):
  mspec = draw(G.model_specs(max_nodes=10 if tier == 'thorough' else 6,
                             max_subgraphs=3, reuse_const=False,
                             ops=[o for o in G.ALL_OPS] + ['CONSTVIEW']))   # constants as data operands of RESHAPE/TRANSPOSE
  names = engine.op_out_names(mspec)
  pool = R.STATIC_CFGS * 3 + R.FLOAT_COMPUTE_CFGS + [(R.FLOATCAST, R.FP16)] * 3
  rules = draw(R.rules_for(names, engine.ops_present(mspec), max_rules=4,
                           cfg_pool=pool, allow_skip=False,
                           regex_pool=R.regex_alphabet(names)))
  n = draw(st.integers(1, 2))
  case = {'model': mspec, 'recipe': {'kind': 'rules', 'rules': rules},
          'calib_seeds': [draw(st.integers(0, 999)) for _ in range(n)],
          'input_seed': 0}
  draw(engine.usage_dimensions(case))
  if draw(st.integers(0, 5)) == 0:
    # every min/max rule names a user-registered algorithm (same kernels under
    # another key, registered through the public extension API)
    from vq.props import c12
    for r in case['recipe']['rules']:
      if r['algo'] == R.MINMAX:
        r['algo'] = c12.USER_ALGO
    case['user_algorithm'] = True
  return case


CALIBRATING = (R.MINMAX, 'vq_user_min_max')


def expected_keys(case, out):
  """Names calibration must record, per the reference resolution."""
  rp = plan.resolve_model(case['model'], plan.ref_recipe(case, out))
  keys = set()
  selected = []
  for si, sg in enumerate(case['model']['subgraphs']):
    for p in rp[si]['ops']:
      if p.algo not in CALIBRATING:
        continue
      n = sg['nodes'][p.node_index]
      selected.append((si, p.node_index))
      for t in n['in'] + n['out']:
        if t >= 0:
          keys.add(sg['tensors'][t]['name'])
    if rp[si]['input'][0] in CALIBRATING:
      keys.update(sg['tensors'][t]['name'] for t in sg['inputs'])
    if rp[si]['output'][0] in CALIBRATING:
      keys.update(sg['tensors'][t]['name'] for t in sg['outputs'])
  return keys, selected


def check_case(case):
  from vq.props import c12
  c12.register_user_algorithm()
  out = engine.run(case)
  labels = ['user_registered_algorithm'] if case.get('user_algorithm') else []
  if out.stage == 'empty_recipe':
    return core.result(False, ['empty_recipe'])
  nt = False
  multi_out = {G.QNAME.get(n['op']) for sg in case['model']['subgraphs']
               for n in sg['nodes'] if len(n['out']) > 1}
  for r in out.accepted:
    if r['regex'].endswith('$') or ';' in r['regex'] or r['op'] in multi_out:
      nt = True
  labels.append('need_calibration' if out.need_calibration else 'no_calibration_needed')
  labels.append('subgraphs=%d' % len(case['model']['subgraphs']))
  if out.stage == 'calibrate':
    raise Violation('calibrate_raises:' + core.exc_bucket(out.exc), repr(out.exc)[:600])
  if out.need_calibration:
    want, selected = expected_keys(case, out)
    got = set(out.calib.keys())
    if got != want:
      raise Violation('calibration_key_set_differs',
                      'missing=%s unexpected=%s' % (sorted(want - got)[:6], sorted(got - want)[:6]))
    labels.append('selected_ops=%d' % min(len(selected), 5))
  if not out.ok:
    msg = str(out.exc)
    if MISSING.search(msg) or (isinstance(out.exc, KeyError) and 'qsv' in core.exc_bucket(out.exc).lower()):
      raise Violation('missing_statistics', repr(out.exc)[:600])
    if isinstance(out.exc, KeyError):
      raise Violation('missing_statistics_keyerror:' + core.exc_bucket(out.exc), repr(out.exc)[:600])
    return core.result(nt, labels + ['raised:quantize:' + core.exc_bucket(out.exc)])
  labels.append('returned')
  r = c03.verify_modes(case, out, labels)
  r['nontrivial'] = nt
  return r


def phases(tier):
  k = float(os.environ.get('VERIF_SCALE', '1'))
  big = tier == 'thorough'
  return [
      {'name': 'select', 'kind': 'hyp', 'strategy': lambda: cases(tier),
       'run': check_case, 'examples': int((120000 if big else 2500) * k)},
  ]
