"""C08 - shipped default recipes quantize every supported-op graph without rejection."""
import os

from hypothesis import strategies as st

from vq import core, engine
from vq.core import Violation
from vq.gen import graph as G

META = {
    'level': 'exploration',
    'rule': ('The six shipped recipes (5 JSON files + recipe.dynamic_wi8_afp32()), '
             'loaded unchanged, x generated float models with every topology '
             'feature on (shared inputs, concatenation of shared tensors, '
             'squares, unsupported ops in between, exported intermediates, '
             'converter-style constant de-duplication, re-used constants). '
             'Non-trivial = the model has >= 1 interaction feature '
             '(multi-consumer tensor, repeated operand, exported-and-consumed, '
             'concat of a shared tensor, unsupported op, shared/deduplicated '
             'constant); distinct by case hash.'),
    'assumptions': ['names unique model-wide (documented precondition)'],
}


def model_kw(tier):
  return dict(max_nodes=12 if tier == 'thorough' else 8, max_subgraphs=2,
              reuse_const=True, share_buffers=False, dedup=True,
              ops=G.ALL_OPS + ['GATE'],   # GATE: GREATER + SELECT, a BOOL tensor
              # incl. all-zero / tiny / huge / lattice constants: degenerate weight
              # channels and biases far from the scale product
              const_styles=G.CONST_STYLES_SANE * 3 + G.CONST_STYLES_ALL)


def check_case(case):
  out = engine.run(case)
  feats = G.features(case['model'])
  labels = ['recipe:' + case['recipe']['name']]
  labels += ['feat:' + f for f in feats if f in G.INTERACTION]
  if not out.ok:
    raise Violation('rejected:%s:%s' % (out.stage, core.exc_bucket(out.exc)),
                    '%s raised %r' % (out.stage, out.exc))
  labels.append('returned')
  if out.batched:
    labels.append('calibration_samples_batched')
  return core.result(bool(feats & G.INTERACTION), labels)


def kf_shared_constant_different_params(case, violation):
  """The rejection names constant tensor(s): one constant tensor with several
  consumer operators, or two constant tensors stored in one buffer
  (converter-style de-duplication), whose consumers need different parameters."""
  import re
  m = re.search(r"The tensors b'(.*)' and b'(.*)' do not have the same", violation.message)
  if not m:
    return False
  a, b = m.groups()
  kinds, ncons = {}, {}
  for sg in case['model']['subgraphs']:
    for t in sg['tensors']:
      kinds[t['name']] = t['kind']
    for n in sg['nodes']:
      for t in set(x for x in n['in'] if x >= 0):
        nm = sg['tensors'][t]['name']
        ncons[nm] = ncons.get(nm, 0) + 1
  if kinds.get(a) != 'const' or kinds.get(b) != 'const':
    return False
  if a == b:
    return ncons.get(a, 0) >= 2
  return bool(case['model'].get('dedup')) or any(
      t.get('share') is not None for sg in case['model']['subgraphs'] for t in sg['tensors'])


def kf_shared_weight_different_axes(case, violation):
  """One constant tensor is the weight operand of two ops whose kernels want
  per-channel parameters along different axes (e.g. BATCH_MATMUL rhs: last
  axis, FULLY_CONNECTED: axis 0)."""
  from vq.ref import optable
  for sg in case['model']['subgraphs']:
    axes = {}
    for n in sg['nodes']:
      for pos, t in enumerate(n['in']):
        if t < 0 or sg['tensors'][t]['kind'] != 'const' or sg['tensors'][t]['dtype'] != 'f32':
          continue
        if optable.role(n['op'], pos, True) != 'weight':
          continue
        if n['op'] == 'BATCH_MATMUL':
          rank = len(sg['tensors'][t]['shape'])
          ax = rank - 2 if n.get('opts', {}).get('adjY') else rank - 1
        else:
          ax = optable.WEIGHT_QDIM.get(n['op'])
        axes.setdefault(t, set()).add(ax)
    if any(len(a) >= 2 for a in axes.values()):
      return True
  return False


def phases(tier):
  k = float(os.environ.get('VERIF_SCALE', '1'))
  big = tier == 'thorough'
  kw = model_kw(tier)
  return [
      {'name': 'shipped', 'kind': 'hyp',
       'strategy': lambda: engine.cases(model_kw=kw, recipe_kind='shipped'),
       'run': check_case, 'examples': int((180000 if big else 3000) * k)},
  ]
