"""C07 - full-integer models approximate the float model on calibrated inputs."""
import os

import numpy as np
from hypothesis import strategies as st

from vq import core, engine, fb, interp, kfpred
from vq.core import Violation
from vq.gen import graph as G
from vq.gen import recipes as R

META = {
    'level': 'exploration',
    'rule': ('Generated float models of depth <= 6 x the static-range configs '
             'the policy accepts (a8/a16, w4/w8, sym/asym activations, '
             'per-tensor/per-channel weights) as a "*" rule or per-op rules x '
             'one calibration input x, which is also the test input. '
             'Non-trivial = >= 2 statically quantized ops in sequence and a '
             'non-constant float output; distinct by case hash.'),
    'assumptions': ['bound: |q - f| <= 4 output steps + phi*A with A the largest float activation magnitude; phi(a8,w8)=0.06, phi(a16,w8)=0.04, phi(.,w4)=0.5 (>= 3x the largest error measured on 10k generated graphs of the unchanged tree)',
                    'constants drawn without outlier styles (weight outliers make 4-bit per-tensor error unbounded relative to A)',
                    '"never constant or saturated" is decided through the bound: an output that is constant or entirely saturated while the float output varies by more than twice the allowance necessarily exceeds the bound (weight error can legitimately exceed an int16 output range calibrated on the same input)'],
    'low_yield': {'label': 'compared', 'floor': 0.5},
}
K_STEPS = 4.0


def phi(cfgs):
  """Largest allowance among the static configs used by the case."""
  p = 0.0
  for c in cfgs:
    if c['act'] is None:
      continue
    if c['w'] is not None and c['w'][0] == 4:
      p = max(p, 0.5)
    elif c['act'][0] == 16:
      p = max(p, 0.04)
    else:
      p = max(p, 0.06)
  return p or 0.06


@st.composite
def cases(draw, tier):
  mspec = draw(G.model_specs(max_nodes=6, max_subgraphs=1, reuse_const=True,
                             ops=G.SUPPORTED + ['RELU', 'ABS', 'MAX_POOL_2D'],
                             const_styles=['normal', 'normal', 'positive', 'negative']))
  names = engine.op_out_names(mspec)
  if draw(st.integers(0, 2)):
    algo, c = draw(st.sampled_from(R.STATIC_CFGS))
    rules = [R.rule('.*', '*', algo, dict(c))]
    if draw(st.integers(0, 2)) == 0:
      # the model boundary gets its own parameters (another symmetry at the same
      # width, or another width): the producer's output has to be re-encoded
      algo2, c2 = draw(st.sampled_from(R.STATIC_CFGS))
      if c['act'][0] == 8 and draw(st.booleans()):
        algo2, c2 = R.MINMAX, (R.A8W8 if c['act'][1] else R.A8SW8)
      rules.append(R.rule('.*', draw(st.sampled_from(['OUTPUT', 'OUTPUT', 'INPUT'])), algo2, dict(c2)))
  else:
    rules = draw(R.rules_for(names, engine.ops_present(mspec), max_rules=3,
                             cfg_pool=R.STATIC_CFGS, allow_skip=False))
  seed = draw(st.integers(0, 999))
  case = {'model': mspec, 'recipe': {'kind': 'rules', 'rules': rules},
          'calib_seeds': [seed], 'input_seed': seed}
  draw(engine.usage_dimensions(case))
  return case


def compare_numeric(case, out, labels, phi_value):
  """Runs float and quantized model on the calibration input; raises Violation."""
  mspec = case['model']
  bad = engine.must_not_execute(case, out.qbytes)
  if bad:
    labels.append('execution_excluded:' + ','.join(bad))
    return False
  try:
    it_q = interp.make(out.qbytes)
  except Exception as e:  # pylint: disable=broad-except
    labels.append('interpreter_refuses(C01)')
    return False
  it_f = interp.make(out.model_bytes)
  compared = False
  for si, sg in enumerate(mspec['subgraphs']):
    ins = G.make_inputs(mspec, si, case['input_seed'])
    of, rf = interp.run_signature(it_f, sg['sig'], ins)
    tf_ = interp.all_tensors(it_f, interp.subgraph_index(rf))
    fl = [v for v, _ in tf_.values() if v.dtype.kind == 'f' and v.size]
    if not all(np.all(np.isfinite(v)) for v in fl):
      labels.append('nonfinite_float_run:skipped')
      continue
    amax = max([float(np.max(np.abs(v))) for v in fl] + [0.0])
    rq = it_q.get_signature_runner(sg['sig'])
    det = rq.get_input_details()
    try:
      oq = rq(**{k: engine.quantize_like_tensor(v, det[k]) for k, v in ins.items()})
    except Exception as e:  # pylint: disable=broad-except
      labels.append('interpreter_refuses(C01)')
      continue
    od = rq.get_output_details()
    for k in of:
      f = of[k].astype(np.float64)
      if f.size == 0:
        continue
      q = interp.dequant_detail(oq[k], od[k])
      sc = od[k]['quantization_parameters']['scales']
      step = float(sc[0]) if len(sc) else 0.0
      if not np.all(np.isfinite(q)):
        raise Violation('quantized_output_not_finite', 'sg%d output %s' % (si, k))
      err = float(np.max(np.abs(q - f)))
      bound = K_STEPS * step + phi_value * amax + 1e-6
      compared = True
      if err > bound:
        # name the failure: a constant or entirely saturated output while the
        # float output varies by more than the allowance is the "garbage" case
        tag = 'output_outside_bound'
        raw = np.asarray(oq[k])
        if f.size > 1 and float(np.ptp(f)) > 2 * bound:
          if float(np.ptp(q)) == 0:
            tag = 'quantized_output_constant'
          elif raw.dtype.kind == 'i' and np.all((raw == np.iinfo(raw.dtype).min) | (raw == np.iinfo(raw.dtype).max)):
            tag = 'quantized_output_saturated'
        raise Violation(tag,
                        'sg%d output %s: max|q - f| = %.4g > %.4g (= %g steps of %.3g + %.2f * max activation %.4g)' % (
                            si, k, err, bound, K_STEPS, step, phi_value, amax))
      if f.size > 1 and float(np.ptp(f)) > 2 * bound:
        labels.append('nonconstant_output')
  return compared


def check_case(case):
  out = engine.run(case)
  if out.stage == 'empty_recipe':
    return core.result(False, ['empty_recipe'])
  if not out.ok:
    return core.result(False, ['raised:%s:%s' % (out.stage, core.exc_bucket(out.exc)[:60])])
  labels = ['returned']
  p = phi([r['cfg'] for r in out.accepted])
  if compare_numeric(case, out, labels, p):
    labels.append('compared')
  n_srq = sum(1 for _, _, pl in kfpred.resolved_ops(case) if pl.mode == 'srq')
  labels.append('srq_ops=%d' % min(n_srq, 6))
  return core.result(n_srq >= 2 and 'nonconstant_output' in labels, sorted(set(labels)))


kf_bmm_static_const_channelwise = None


def _kf_bmm(case, violation=None):
  """F14: a static-range BATCH_MATMUL with a constant operand and CHANNELWISE weights."""
  for si, n, p in kfpred.resolved_ops(case):
    if n['op'] != 'BATCH_MATMUL' or p.mode != 'srq':
      continue
    sg = case['model']['subgraphs'][si]
    if any(sg['tensors'][t]['kind'] == 'const' for t in n['in']) and kfpred._gran(p.cfg) == 'CHANNELWISE':
      return True
  return False


kf_bmm_static_const_channelwise = _kf_bmm


def phases(tier):
  k = float(os.environ.get('VERIF_SCALE', '1'))
  big = tier == 'thorough'
  return [
      {'name': 'static', 'kind': 'hyp', 'strategy': lambda: cases(tier),
       'run': check_case, 'examples': int((120000 if big else 2000) * k)},
  ]


def kf_bias_int32_saturated(spec, violation):
  """The returned model stores an int32 bias code at the end of the type: the
  bias does not fit bias_scale = input_scale x weight_scale (degenerate input
  range, e.g. an activation that is constant on the calibration data, times a
  tiny weight channel)."""
  out = engine.run(spec)
  if not out.ok:
    return False
  q = fb.parse(out.qbytes)
  lim = 2 ** 31 - 1
  for si, sg in enumerate(q['subgraphs']):
    for ti, t in enumerate(sg['tensors']):
      if t['type'] == fb.TT.INT32 and t['scale'] is not None and fb.is_const(q, t):
        codes = fb.tensor_constant(q, si, ti).astype(np.int64)
        if codes.size and np.any(np.abs(codes) >= lim):
          return True
  return False

