"""C19 - each subgraph of a multi-signature model is transformed as if it stood alone."""
import copy
import os

import numpy as np
from hypothesis import strategies as st

from ai_edge_quantizer import quantizer as quantizer_mod

from vq import core, engine, fb
from vq.core import Violation
from vq.gen import graph as G
from vq.gen import recipes as R

META = {
    'level': 'exploration',
    'rule': ('Generated models with 2..3 subgraphs (independent graphs, graphs '
             'sharing constant buffers, structurally equal graphs with renamed '
             'tensors) x recipes; statistics are obtained per stand-alone '
             'single-subgraph model and merged, then the multi-subgraph model '
             'and every stand-alone model are quantized with the same recipe '
             'and the same statistics. Non-trivial = >= 2 subgraphs each with '
             '>= 1 inserted op in the result; distinct by case hash.'),
    'assumptions': ['stand-alone models are built from the same spec (not sliced from the flatbuffer)',
                    'buffer and opcode indices are compared through what they denote'],
}
Q, DQ = fb.OP_CODE['QUANTIZE'], fb.OP_CODE['DEQUANTIZE']


def _clone_subgraph(sg, suffix, si):
  c = copy.deepcopy(sg)
  for t in c['tensors']:
    t['name'] = t['name'] + suffix
    if t.get('share') is not None:
      t['share'] = None
  c['name'] = 'sub_%d' % si
  c['sig'] = 'sig_%d' % si
  c['argprefix'] = 'arg%d' % si
  return c


# the sharing population is built from constant-consuming operators
SHARE_OPS = ['FULLY_CONNECTED'] * 4 + ['EMBEDDING_LOOKUP', 'BATCH_MATMUL', 'CONV_2D', 'ADD', 'MUL', 'TANH', 'RESHAPE']


@st.composite
def cases(draw, tier):
  kind = draw(st.sampled_from(['independent', 'independent', 'sharing', 'sharing', 'twins']))
  if kind == 'twins':
    m = draw(G.model_specs(max_nodes=6, min_nodes=2, max_subgraphs=1))
    sg0 = m['subgraphs'][0]
    sg0['sig'], sg0['argprefix'] = 'sig_0', 'arg0'
    m['subgraphs'].append(_clone_subgraph(sg0, '_twin', 1))
    mspec = m
  else:
    mspec = draw(G.model_specs(max_nodes=8 if tier == 'thorough' else 5, min_nodes=2 if kind == 'sharing' else 1,
                               max_subgraphs=3, min_subgraphs=2, share_buffers=(kind == 'sharing'),
                               # tied tensors with different numbers of consumers per function
                               reuse_const=(kind == 'sharing'), reuse_odds=draw(st.integers(0, 1)) if kind == 'sharing' else 1,
                               **({'ops': SHARE_OPS, 'force_fam': 2, 'fc_plain': True} if kind == 'sharing' else {}),
                               share_odds=draw(st.integers(0, 1)) if kind == 'sharing' else 1, dim_choices=[2, 4] if kind == 'sharing' else None))
  names = engine.op_out_names(mspec)
  if kind == 'sharing' and draw(st.booleans()):
    # one treatment for every op, so that tied weights are compatible and the
    # request is accepted: mostly the modes that insert a DEQUANTIZE per tensor
    algo, c = draw(st.sampled_from(R.FLOAT_COMPUTE_CFGS + [(R.MINMAX, R.WO8), (R.MINMAX, R.WO4_S),
                                                          (R.FLOATCAST, R.FP16), (R.FLOATCAST, R.FP16)]))
    recipe = {'kind': 'rules', 'rules': [R.rule('.*', '*', algo, dict(c))]}
  elif draw(st.integers(0, 2)) == 0:
    recipe = {'kind': 'shipped', 'name': draw(st.sampled_from(engine.SHIPPED_NAMES))}
  else:
    recipe = {'kind': 'rules', 'rules': draw(R.rules_for(
        names, engine.ops_present(mspec), max_rules=4, cfg_pool=R.COMMON_CFGS,
        allow_skip=False))}
  return {'model': mspec, 'recipe': recipe, 'calib_seed': draw(st.integers(0, 99)), 'kind': kind}


def _quantize(model_bytes, recipe, calib):
  qt, _, _ = engine.setup_quantizer(model_bytes, recipe)
  if not qt.get_quantization_recipe():
    return 'empty', None
  ok, r = core.call(qt.quantize, copy.deepcopy(calib) if qt.need_calibration else None)
  return ('ok', bytes(r.quantized_model)) if ok else ('raise', r)


def check_case(case):
  mspec = case['model']
  if len(mspec['subgraphs']) < 2:
    return core.result(False, ['single_subgraph:skipped'])
  labels = ['kind:' + case['kind'], 'subgraphs=%d' % len(mspec['subgraphs'])]
  singles = [G.build(mspec, only_subgraph=i) for i in range(len(mspec['subgraphs']))]
  multi = G.build(mspec)
  # statistics per stand-alone model, merged (names are unique model-wide)
  merged = {}
  per = []
  need = False
  for i, mb in enumerate(singles):
    qt, _, _ = engine.setup_quantizer(mb, case['recipe'])
    if not qt.get_quantization_recipe():
      return core.result(False, labels + ['empty_recipe'])
    need = qt.need_calibration
    c = {}
    if need:
      ok, c = core.call(qt.calibrate, engine.calibration_data(mspec, i, [case['calib_seed']]),
                        mspec['subgraphs'][i]['sig'])
      if not ok:
        return core.result(False, labels + ['raised:calibrate_single'])
    per.append(c)
    merged.update(copy.deepcopy(c))
  shared = any(t.get('share') is not None and t['share'][0] != si
               for si, sg in enumerate(mspec['subgraphs']) for t in sg['tensors'])
  st_m, res_m = _quantize(multi, case['recipe'], merged)
  outs = [_quantize(mb, case['recipe'], merged) for mb in singles]
  if st_m == 'raise':
    if all(s == 'ok' for s, _ in outs) and not shared:
      raise Violation('multi_rejected_but_every_subgraph_alone_accepted', repr(res_m)[:400])
    return core.result(False, labels + ['multi_raised'])
  if st_m != 'ok':
    return core.result(False, labels + ['empty_recipe'])
  pm = fb.parse(res_m)
  n_ins = []
  for i, (s, r) in enumerate(outs):
    if s != 'ok':
      raise Violation('subgraph_alone_rejected_but_multi_accepted', 'subgraph %d: %r' % (i, r))
    ps = fb.parse(r)
    _compare(pm, i, ps, 0, shared)
    n_ins.append(sum(1 for o in pm['subgraphs'][i]['ops'] if o['code'] in (Q, DQ)))
  labels.append('returned')
  return core.result(sum(1 for n in n_ins if n > 0) >= 2, labels)


def _compare(pm, i, ps, j, shared):
  a, b = pm['subgraphs'][i], ps['subgraphs'][j]
  w = 'subgraph %d' % i
  if len(a['tensors']) != len(b['tensors']):
    raise Violation('tensor_count_differs', '%s: %d in the multi model, %d alone' % (w, len(a['tensors']), len(b['tensors'])))
  for ti, (x, y) in enumerate(zip(a['tensors'], b['tensors'])):
    for k in ('name', 'shape', 'type', 'scale', 'zp'):
      if x[k] != y[k]:
        raise Violation('tensor_%s_differs' % k, '%s t%d %s: multi %r, alone %r' % (w, ti, x['name'], _s(x[k]), _s(y[k])))
    if x['scale'] is not None and len(x['scale']) > 1 and x['qdim'] != y['qdim']:
      raise Violation('tensor_qdim_differs', '%s t%d' % (w, ti))
    dx, dy = fb.buffer_bytes(pm, x['buffer']), fb.buffer_bytes(ps, y['buffer'])
    if (dx or b'') != (dy or b''):
      raise Violation('constant_contents_differ', '%s t%d %s' % (w, ti, x['name']))
  if len(a['ops']) != len(b['ops']):
    raise Violation('op_count_differs', '%s: %d vs %d' % (w, len(a['ops']), len(b['ops'])))
  for oi, (x, y) in enumerate(zip(a['ops'], b['ops'])):
    if (x['code'], x['inputs'], x['outputs'], x['opts_type'], x['opts']) != (
        y['code'], y['inputs'], y['outputs'], y['opts_type'], y['opts']):
      raise Violation('op_differs', '%s op%d: multi %s in=%s out=%s, alone %s in=%s out=%s' % (
          w, oi, fb.OP_NAME.get(x['code']), x['inputs'], x['outputs'],
          fb.OP_NAME.get(y['code']), y['inputs'], y['outputs']))
  if a['inputs'] != b['inputs'] or a['outputs'] != b['outputs']:
    raise Violation('graph_io_differs', '%s: %s/%s vs %s/%s' % (w, a['inputs'], a['outputs'], b['inputs'], b['outputs']))
  sa = [s for s in pm['signatures'] if s['subgraph'] == i]
  sb = [s for s in ps['signatures'] if s['subgraph'] == j]
  if [(s['key'], s['inputs'], s['outputs']) for s in sa] != [(s['key'], s['inputs'], s['outputs']) for s in sb]:
    raise Violation('signature_differs', w)


def _s(v):
  return v[:3] if isinstance(v, list) else v


def phases(tier):
  k = float(os.environ.get('VERIF_SCALE', '1'))
  big = tier == 'thorough'
  return [
      {'name': 'subgraphs', 'kind': 'hyp', 'strategy': lambda: cases(tier),
       'run': check_case, 'examples': int((90000 if big else 2000) * k)},
  ]
