"""C09 - calibration statistics are exact, order-faithful and resumable."""
import copy
import os

import numpy as np
from hypothesis import strategies as st

from ai_edge_quantizer import quantizer as quantizer_mod

from vq import core, engine, fb, interp
from vq.core import Violation
from vq.gen import graph as G
from vq.gen import recipes as R
from vq.props.c14 import deep_equal
from vq.ref import optable, plan

META = {
    'level': 'exploration',
    'rule': ('Generated models (1..2 signatures; a fifth contain a stateful '
             'SVDF operator) x calibration-requiring '
             'recipes x datasets of 1..6 samples of different magnitudes x '
             'every way the dataset is cut into consecutive resumed sessions '
             '(drawn). The check recomputes per-sample min/max of every tensor '
             'with its own float interpreter run and folds them with the '
             'documented moving average. Non-trivial = >= 2 samples, >= 1 '
             'resume point and a tensor with several consumers; distinct by '
             'case hash.'),
    'assumptions': ['EMA recomputed in float64, compared with rtol 1e-5 (library folds in float32)',
                    'for non-weight constants either the true per-tensor or a true single-axis min/max is accepted (DESIGN.md C09 FA ii)'],
}
SMOOTH = 0.95


@st.composite
def cases(draw, tier):
  if draw(st.integers(0, 4)) == 0:
    # models with a stateful operator (its variable tensor is reset between
    # samples, so every sample is measured from the initial state)
    mspec = draw(G.model_specs(max_nodes=5, min_nodes=2, max_subgraphs=1, dim_choices=[2, 3, 4],
                               ops=['SVDF', 'SVDF', 'FULLY_CONNECTED', 'TANH', 'ADD', 'MUL', 'RELU']))
  else:
    mspec = draw(G.model_specs(max_nodes=8 if tier == 'thorough' else 6, max_subgraphs=2,
                               reuse_const=True))
  names = engine.op_out_names(mspec)
  if draw(st.integers(0, 1)):
    recipe = {'kind': 'shipped', 'name': draw(st.sampled_from(['default_a8w8_recipe', 'default_a16w8_recipe']))}
  else:
    recipe = {'kind': 'rules', 'rules': draw(R.rules_for(
        names, engine.ops_present(mspec), max_rules=3,
        cfg_pool=R.STATIC_CFGS * 3 + R.FLOAT_COMPUTE_CFGS, allow_skip=False))}
  n = draw(st.integers(1, 6))
  samples = [{'seed': draw(st.integers(0, 999)), 'scale': draw(st.sampled_from([0.25, 0.5, 1.0, 2.0, 3.0]))}
             for _ in range(n)]
  cuts = sorted(set(draw(st.lists(st.integers(1, max(1, n - 1)), max_size=3)))) if n > 1 else []
  # the dataset may be any iterable: a list, a one-shot iterator or a generator
  return {'model': mspec, 'recipe': recipe, 'samples': samples, 'cuts': cuts,
          'stream': draw(st.sampled_from([None, None, 'iter', 'generator']))}


def dataset(mspec, si, samples):
  return [G.make_inputs(mspec, si, s['seed'], scale=s['scale']) for s in samples]


def as_stream(data, form):
  if form == 'iter':
    return iter(data)
  if form == 'generator':
    return (d for d in data)
  return data


def check_case(case):
  mspec = case['model']
  model_bytes = G.build(mspec)
  qt, accepted, _ = engine.setup_quantizer(model_bytes, case['recipe'])
  if not qt.get_quantization_recipe() or not qt.need_calibration:
    return core.result(False, ['no_calibration_needed'])
  samples = case['samples']
  labels = ['samples=%d' % len(samples), 'sessions=%d' % (len(case['cuts']) + 1)]
  labels.append('dataset:' + (case.get('stream') or 'list'))
  if any(n['op'] == 'SVDF' for sg in mspec['subgraphs'] for n in sg['nodes']):
    labels.append('stateful_op')
  # ---- single pass through the public API
  res = None
  for si, sg in enumerate(mspec['subgraphs']):
    ok, r = core.call(qt.calibrate, as_stream(dataset(mspec, si, samples), case.get('stream')), sg['sig'], res)
    if not ok:
      return core.result(False, labels + ['raised:calibrate:' + core.exc_bucket(r)])
    res = r
  # ---- the check's own statistics
  it = interp.make(model_bytes)
  want = {}
  for si, sg in enumerate(mspec['subgraphs']):
    for k, ins in enumerate(dataset(mspec, si, samples)):
      it.reset_all_variables()   # every sample starts from the initial state
      _, runner = interp.run_signature(it, sg['sig'], ins)
      tens = interp.all_tensors(it, interp.subgraph_index(runner))
      for t in sg['tensors']:
        if t['kind'] == 'const' or t['name'] not in tens:
          continue
        v = tens[t['name']][0]
        if v.size == 0:
          continue
        mn, mx = float(np.min(v)), float(np.max(v))
        if t['name'] not in want:
          want[t['name']] = [mn, mx]
        else:
          w = want[t['name']]
          w[0] = SMOOTH * w[0] + (1 - SMOOTH) * mn
          w[1] = SMOOTH * w[1] + (1 - SMOOTH) * mx
  src = fb.parse(model_bytes)
  const_by_name = {}
  for si, sg in enumerate(mspec['subgraphs']):
    for ti, t in enumerate(sg['tensors']):
      if t['kind'] == 'const':
        const_by_name[t['name']] = fb.tensor_constant(src, si, ti)
  weight_axes = _weight_axes(case, accepted)
  n_runtime = 0
  for name, q in res.items():
    if name in const_by_name:
      _check_const(name, q, const_by_name[name], weight_axes.get(name))
      continue
    if name not in want:
      raise Violation('statistics_for_unknown_tensor', name)
    if 'min' not in q or 'max' not in q:
      raise Violation('runtime_tensor_without_statistics', '%s: %r' % (name, q))
    n_runtime += 1
    got = (float(np.asarray(q['min']).reshape(-1)[0]), float(np.asarray(q['max']).reshape(-1)[0]))
    if np.asarray(q['min']).size != 1 or np.asarray(q['max']).size != 1:
      raise Violation('runtime_statistics_not_scalar', name)
    for g, w, what in ((got[0], want[name][0], 'min'), (got[1], want[name][1], 'max')):
      if not np.isclose(g, w, rtol=1e-5, atol=1e-7):
        raise Violation('runtime_statistic_differs',
                        '%s %s: calibrate() %r, moving average of the true per-sample values %r (%d samples)' % (
                            name, what, g, w, len(samples)))
  # ---- resumed sessions must equal the single pass; previous result untouched
  if case['cuts']:
    bounds = [0] + case['cuts'] + [len(samples)]
    qt2, _, _ = engine.setup_quantizer(model_bytes, case['recipe'])
    res2 = None
    for si, sg in enumerate(mspec['subgraphs']):
      for a, b in zip(bounds, bounds[1:]):
        if a == b:
          continue
        snap = copy.deepcopy(res2)
        ok, r = core.call(qt2.calibrate, as_stream(dataset(mspec, si, samples[a:b]), case.get('stream')), sg['sig'], res2)
        if not ok:
          raise Violation('resumed_calibration_raises', repr(r)[:400])
        if res2 is not None and not deep_equal(res2, snap):
          raise Violation('previous_calibration_result_modified', 'session %d..%d of %s' % (a, b, sg['sig']))
        res2 = r
    if set(res2) != set(res):
      raise Violation('resumed_key_set_differs', str(sorted(set(res2) ^ set(res))[:5]))
    for name in res:
      for what in ('min', 'max'):
        if what not in res[name] and what not in res2[name]:
          continue
        a, b = np.asarray(res[name][what], np.float64), np.asarray(res2[name][what], np.float64)
        if a.shape != b.shape or not np.allclose(a, b, rtol=1e-6, atol=1e-9):
          raise Violation('resumed_statistics_differ',
                          '%s %s: single pass %r, resumed %r (cuts %s)' % (name, what, a.reshape(-1)[:3].tolist(), b.reshape(-1)[:3].tolist(), case['cuts']))
  feats = G.features(mspec)
  nt = len(samples) >= 2 and bool(case['cuts']) and 'multi_consumer' in feats
  labels.append('runtime_tensors_checked>0' if n_runtime else 'runtime_tensors_checked=0')
  return core.result(nt, labels)


def _weight_axes(case, accepted):
  """const name -> required reduction axis (kernel dimension), when every
  selecting op uses it as a CHANNELWISE weight with the same axis."""
  class _O:
    pass
  o = _O()
  o.accepted = accepted
  rp = plan.resolve_model(case['model'], plan.ref_recipe(case, o))
  req = {}
  for si, sg in enumerate(case['model']['subgraphs']):
    for p in rp[si]['ops']:
      if p.algo != R.MINMAX:
        continue
      n = sg['nodes'][p.node_index]
      w = p.cfg.weight_tensor_config
      chan = w is not None and str(getattr(w.granularity, 'value', w.granularity)) == 'CHANNELWISE'
      for pos, t in enumerate(n['in']):
        if t < 0 or sg['tensors'][t]['kind'] != 'const' or sg['tensors'][t]['dtype'] != 'f32':
          continue
        name = sg['tensors'][t]['name']
        axis = None
        if chan and optable.role(p.op, pos, True) == 'weight':
          if p.op == 'BATCH_MATMUL':
            rank = len(sg['tensors'][t]['shape'])
            axis = rank - 2 if n.get('opts', {}).get('adjY') else rank - 1
          else:
            axis = optable.WEIGHT_QDIM.get(p.op)
        req.setdefault(name, set()).add(axis)
  return {k: next(iter(v)) for k, v in req.items() if len(v) == 1 and None not in v}


def _check_const(name, q, data, required_axis):
  if 'min' not in q or 'max' not in q:
    raise Violation('constant_without_statistics', name)
  mn, mx = np.asarray(q['min']), np.asarray(q['max'])
  data = np.asarray(data)
  cands = [(None, np.min(data, keepdims=True), np.max(data, keepdims=True))]
  for d in range(data.ndim):
    axes = tuple(i for i in range(data.ndim) if i != d)
    cands.append((d, np.min(data, axis=axes, keepdims=True), np.max(data, axis=axes, keepdims=True)))
  match = [d for d, a, b in cands
           if a.shape == mn.shape and b.shape == mx.shape and
           np.allclose(a, mn, rtol=1e-6, atol=0) and np.allclose(b, mx, rtol=1e-6, atol=0)]
  if not match:
    raise Violation('constant_statistics_not_true_min_max',
                    '%s shape %s: min %s max %s' % (name, list(data.shape), mn.reshape(-1)[:4].tolist(), mx.reshape(-1)[:4].tolist()))
  if required_axis is not None and data.ndim and data.shape[required_axis] > 1:
    if required_axis not in match:
      raise Violation('weight_statistics_wrong_axis',
                      '%s: per-channel statistics expected along axis %d, got reduction matching %s' % (name, required_axis, match))


def phases(tier):
  k = float(os.environ.get('VERIF_SCALE', '1'))
  big = tier == 'thorough'
  return [
      {'name': 'calibration', 'kind': 'hyp', 'strategy': lambda: cases(tier),
       'run': check_case, 'examples': int((120000 if big else 2000) * k)},
  ]
