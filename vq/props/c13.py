"""C13 - every accepted (op, config) pair is runtime-sound; unsupported ones are refused."""
import hashlib
import os

import hypothesis
from hypothesis import HealthCheck, Phase, given, settings
from hypothesis import strategies as st

from ai_edge_quantizer import algorithm_manager
from ai_edge_quantizer import qtyping
from ai_edge_quantizer import recipe_manager

from vq import core, engine, fb, interp, kfpred
from vq.core import Violation
from vq.gen import graph as G
from vq.gen import recipes as R
from vq.props import c06, c07

META = {
    'level': 'exploration',
    'rule': ('(i) the full finite lattice is enumerated: 24 operator selectors '
             '(21 ops, INPUT, OUTPUT, CUSTOM_OP) x every config of {activation '
             'none/8/16 bit x sym/asym} x weight {none,4,8,16 bit} x sym/asym x '
             'tensor/channel-wise x INT/FLOAT x compute precision x '
             'explicit_dequantize x 2 algorithms, each tried as a specific-op '
             'update and under "*"; (ii) for EVERY accepted pair k generated '
             'single-op models (k = 3 quick, 80 thorough; shapes, bias/no '
             'bias, constant or runtime second operand) go through the whole '
             'pipeline and the interpreter and are held to the C06/C07 bounds. '
             'Non-trivial = accepted pairs (refused ones are counted '
             'separately); distinct by (selector, algorithm, config).'),
    'assumptions': ['default policy (no load_config_policy); skip_checks is outside the property'],
    'exhaustive': {'quick': True, 'thorough': True},
}

SELECTORS = R.OP_SELECTORS + ['CUSTOM_OP']
ALGOS = [R.MINMAX, R.FLOATCAST]
BUILTIN_OF = {v: k for k, v in G.QNAME.items()}
PRIORS = {R.MINMAX: [R.DRQ8, R.A8W8], R.FLOATCAST: [R.FP16]}


def full_lattice():
  out = list(R.lattice())
  for a in [None] + [[b, s] for b in (8, 16) for s in (True, False)]:
    for cp in ('INTEGER', 'FLOAT'):
      for ed in (False, True):
        out.append(R.cfg(a, None, cp, ed))
  return out


def acceptance_items():
  lat = full_lattice()
  for sel in SELECTORS:
    for algo in ALGOS:
      for ci in range(len(lat)):
        yield {'sel': sel, 'algo': algo, 'ci': ci}


_LAT = None


def lat(ci):
  global _LAT
  if _LAT is None:
    _LAT = full_lattice()
  return _LAT[ci]


def run_acceptance(item):
  sel, algo, c = item['sel'], item['algo'], lat(item['ci'])
  labels = ['sel:' + sel, 'algo:' + algo]
  try:
    cfg = R.make_config(c)
  except ValueError:
    return core.result(False, labels + ['unconstructible'])
  except Exception as e:  # pylint: disable=broad-except
    raise Violation('construction_error_not_valueerror', '%r for %s' % (e, c))
  rm = recipe_manager.RecipeManager()
  ok, err = core.call(rm.add_quantization_config, '.*', qtyping.TFLOperationName(sel), cfg, algo)
  if not ok and not isinstance(err, ValueError):
    raise Violation('refusal_not_valueerror', '%s %s %s: %r' % (sel, algo, c, err))
  if not ok and rm.get_quantization_recipe():
    raise Violation('refused_update_changed_recipe', '%s %s %s' % (sel, algo, c))
  # the selector as a plain string (recipe files, update('.*', 'ADD', ...)): same verdict
  rms = recipe_manager.RecipeManager()
  oks, errs = core.call(rms.add_quantization_config, '.*', sel, cfg, algo)
  if not oks and not isinstance(errs, ValueError):
    raise Violation('refusal_not_valueerror', '%s (string selector) %s %s: %r' % (sel, algo, c, errs))
  if oks != ok:
    raise Violation('verdict_depends_on_selector_form', '%s %s %s: enum %s, string %s' % (sel, algo, c, ok, oks))
  rm2 = recipe_manager.RecipeManager()
  ok2, err2 = core.call(rm2.add_quantization_config, '.*', qtyping.TFLOperationName.ALL_SUPPORTED, cfg, algo)
  if not ok2:
    raise Violation('star_rule_refused', '%s %s: %r' % (algo, c, err2))
  ok3, got = core.call(rm2.get_quantization_configs, qtyping.TFLOperationName(sel), 'some/op;')
  if not ok3:
    raise Violation('star_resolution_raises', '%s %s %s: %r' % (sel, algo, c, got))
  key = str(getattr(got[0], 'value', got[0]))
  if ok and (key != algo or got[1] != cfg):
    raise Violation('accepted_for_op_but_not_under_star', '%s %s %s resolves to %s' % (sel, algo, c, key))
  if not ok and key != R.NOQ:
    raise Violation('refused_for_op_but_let_through_under_star', '%s %s %s resolves to %s' % (sel, algo, c, key))
  # ... and the same verdict when the pair arrives inside a loaded recipe (the
  # list-of-dicts form save() writes; Quantizer(model, recipe) and
  # load_quantization_recipe() take this route): never accepted there and
  # resolved after having been refused as an update
  if c.get('w') is not None:
    rd = R.rule_dict(R.rule('.*', sel, algo, c))
    rml = recipe_manager.RecipeManager()
    okl, errl = core.call(rml.load_quantization_recipe, [rd])
    if not okl and not isinstance(errl, ValueError):
      raise Violation('refusal_not_valueerror', '%s %s %s (loaded recipe): %r' % (sel, algo, c, errl))
    ok5, gotl = core.call(rml.get_quantization_configs, qtyping.TFLOperationName(sel), 'some/op;')
    if not ok5:
      raise Violation('loaded_rule_resolution_raises', '%s %s %s: %r' % (sel, algo, c, gotl))
    keyl = str(getattr(gotl[0], 'value', gotl[0]))
    if not ok and keyl != R.NOQ:
      raise Violation('refused_for_op_but_accepted_from_loaded_recipe',
                      '%s %s %s: load %s, resolves to %s' % (sel, algo, c, 'accepted' if okl else 'refused', keyl))
    if ok and (not okl or keyl != algo or gotl[1] != cfg):
      raise Violation('accepted_for_op_but_not_from_loaded_recipe',
                      '%s %s %s: load %s (%r), resolves to %s' % (sel, algo, c, 'accepted' if okl else 'refused', errl, keyl))
  # ... and independent of what the manager already holds under that regex
  other = 'CONV_2D' if sel == 'FULLY_CONNECTED' else 'FULLY_CONNECTED'
  for first in (('*', R.DRQ8), (other, R.DRQ8)):
    rmh = recipe_manager.RecipeManager()
    rmh.add_quantization_config('.*', qtyping.TFLOperationName(first[0]), R.make_config(first[1]), R.MINMAX)
    n0 = len(rmh.get_quantization_recipe())
    okh, errh = core.call(rmh.add_quantization_config, '.*', qtyping.TFLOperationName(sel), cfg, algo)
    if okh != ok:
      raise Violation('verdict_depends_on_recipe_state',
                      '%s %s %s: fresh manager %s, manager already holding (.*, %s) %s' % (
                          sel, algo, c, 'accepts' if ok else 'refuses', first[0], 'accepts' if okh else 'refuses'))
    if not okh and len(rmh.get_quantization_recipe()) != n0:
      raise Violation('refused_update_changed_recipe', '%s %s %s (manager holding (.*, %s))' % (sel, algo, c, first[0]))
  # an earlier matching rule that opted out of the checks must not switch them
  # off for a later one
  forced = R.make_config(dict(R.DRQ8, skip=True))
  rm4 = recipe_manager.RecipeManager()
  rm4.add_quantization_config('some', qtyping.TFLOperationName.ALL_SUPPORTED, forced, R.MINMAX)
  rm4.add_quantization_config('.*', qtyping.TFLOperationName.ALL_SUPPORTED, cfg, algo)
  got4 = rm4.get_quantization_configs(qtyping.TFLOperationName(sel), 'some/op;')
  key4 = str(getattr(got4[0], 'value', got4[0]))
  want4 = (key, got[1]) if key != R.NOQ else (R.MINMAX, forced)
  if (key4, got4[1]) != want4:
    raise Violation('star_rule_let_through_after_skip_checks_rule',
                    '%s %s %s: after a matching skip_checks rule the later "*" rule resolves to %s, want %s' % (
                        sel, algo, c, key4, want4[0]))
  # the verdict is a function of (op, config): replacing an earlier '*' rule that
  # has already been resolved must give what a fresh manager gives
  for prior in (PRIORS[algo]):
    rm3 = recipe_manager.RecipeManager()
    rm3.add_quantization_config('.*', qtyping.TFLOperationName.ALL_SUPPORTED, R.make_config(prior), algo)
    rm3.get_quantization_configs(qtyping.TFLOperationName(sel), 'some/op;')
    rm3.add_quantization_config('.*', qtyping.TFLOperationName.ALL_SUPPORTED, cfg, algo)
    got3 = rm3.get_quantization_configs(qtyping.TFLOperationName(sel), 'some/op;')
    key3 = str(getattr(got3[0], 'value', got3[0]))
    if key3 != key or got3[1] != got[1]:
      raise Violation('star_verdict_depends_on_earlier_rule',
                      '%s %s %s: fresh manager resolves to %s, after replacing a resolved "*" rule (%s) to %s' % (
                          sel, algo, c, key, prior, key3))
  if ok and R.mode_of(algo, c) == 'invalid':
    raise Violation('accepted_config_has_no_execution_mode', '%s %s %s' % (sel, algo, c))
  labels.append('accepted' if ok else 'refused')
  return core.result(ok, labels, key='%s|%s|%d' % (sel, algo, item['ci']))


def accepted_pairs():
  """(selector, algo, config index) accepted by the library, deterministically."""
  out = []
  for it in acceptance_items():
    try:
      cfg = R.make_config(lat(it['ci']))
      algorithm_manager.check_op_quantization_config(
          it['algo'], qtyping.TFLOperationName(it['sel']), cfg)
      out.append(it)
    except ValueError:
      pass
  return out


def soundness_items(k):
  for it in accepted_pairs():
    if it['sel'] == 'CUSTOM_OP':
      continue
    yield dict(it, k=k)


def _models_for(sel):
  if sel in ('INPUT', 'OUTPUT'):
    return G.model_specs(max_nodes=2, min_nodes=1, max_subgraphs=1,
                         ops=['FULLY_CONNECTED', 'ADD', 'TANH', 'RESHAPE', 'MUL'],
                         const_styles=['normal', 'positive', 'negative'])
  op = BUILTIN_OF[sel]
  return G.model_specs(max_nodes=1, min_nodes=1, max_subgraphs=1, ops=[op],
                       const_styles=['normal', 'positive', 'negative'],
                       positive_inputs=True, force_positive=(op == 'RSQRT'))


def run_soundness(item):
  sel, algo, c = item['sel'], item['algo'], lat(item['ci'])
  seed = int(hashlib.sha1(core.jdump([sel, algo, item['ci']]).encode()).hexdigest()[:8], 16)
  state = {'n': 0, 'quantized': 0}
  mode = R.mode_of(algo, c)

  @hypothesis.seed(seed)
  @settings(max_examples=item['k'], deadline=None, database=None,
            phases=[Phase.generate], suppress_health_check=list(HealthCheck),
            report_multiple_bugs=False, print_blob=False)
  @given(_models_for(sel), st.booleans(), st.integers(0, 99))
  def inner(mspec, star, seed2):
    state['n'] += 1
    rule = R.rule('.*', '*' if star else sel, algo, dict(c))
    case = {'model': mspec, 'recipe': {'kind': 'rules', 'rules': [rule]},
            'calib_seeds': [seed2], 'input_seed': seed2, 'input_seeds': [seed2]}
    present = {G.QNAME.get(n['op']) for sg in mspec['subgraphs'] for n in sg['nodes']}
    if sel not in ('INPUT', 'OUTPUT') and sel not in present:
      return
    try:
      one_model(case, sel, mode, state)
    except Violation as v:
      # a recorded finding must not hide the remaining models of this pair
      from vq import known
      fid = known.match('C13', 'soundness', v, item)
      if fid is None:
        raise
      state.setdefault('known', {})
      state['known'][fid] = state['known'].get(fid, 0) + 1
  inner()
  r = core.result(True, ['sel:' + sel, 'mode:' + mode, 'models=%d' % state['n'],
                         'quantized_models=%d' % min(state['quantized'], 3)],
                  key='%s|%s|%d' % (sel, algo, item['ci']))
  r['known'] = state.get('known', {})
  return r


def one_model(case, sel, mode, state):
  from vq import isolated
  u = kfpred.unsafe_findings(case)
  if not u and not os.environ.get('VQ_ISOLATED_CHILD'):
    pre = engine.run(case)
    if pre.ok and kfpred.addsub_multiplier_overflow(fb.parse(pre.qbytes)):
      u = ['addsub-output-scale']
  if u and not os.environ.get('VQ_ISOLATED_CHILD'):
    os.environ['VQ_ISOLATED_CHILD'] = '1'
    try:
      status, r = isolated.run('vq.props.c13', 'one_model_child', {'case': case, 'sel': sel, 'mode': mode})
    finally:
      os.environ.pop('VQ_ISOLATED_CHILD', None)
    state['quantized'] += 1
    if status == 'violation':
      r.data = case
      raise r
    if status == 'abort':
      raise _v(case, 'accepted_pair_numerically_unsound:runtime_abort', 'interpreter died with signal %s' % r)
    return
  _one_model(case, sel, mode, state)


def one_model_child(d):
  _one_model(d['case'], d['sel'], d['mode'], {'n': 0, 'quantized': 0})
  return None


def _one_model(case, sel, mode, state):
  out = engine.run(case)
  where = '%s %s' % (sel, core.jdump(case['recipe']['rules'][0]['cfg']))
  if not out.ok:
    raise _v(case, 'accepted_pair_fails_in_pipeline:' + core.exc_bucket(out.exc)[:80],
             '%s: %s raised %r' % (where, out.stage, out.exc))
  try:
    it = interp.make(out.qbytes)
    for si, sg in enumerate(case['model']['subgraphs']):
      r = it.get_signature_runner(sg['sig'])
      det = r.get_input_details()
      ins = G.make_inputs(case['model'], si, case['input_seed'])
      r(**{k: engine.quantize_like_tensor(v, det[k]) for k, v in ins.items()})
  except Exception as e:  # pylint: disable=broad-except
    raise _v(case, 'accepted_pair_refused_by_runtime', '%s: %s' % (where, core.norm_msg(e, 200)))
  state['quantized'] += 1
  labels = []
  try:
    if mode == 'srq':
      c07.compare_numeric(case, out, labels, c07.phi([case['recipe']['rules'][0]['cfg']]))
    else:
      c06.check_case(case)
  except Violation as v:
    raise _v(case, 'accepted_pair_numerically_unsound:' + v.tag, '%s: %s' % (where, v.message))


def _v(case, tag, msg):
  v = Violation(tag, msg)
  v.data = case
  return v


# known findings: the structural predicates need the failing model, which the
# soundness phase attaches to the violation
def _with_case(pred):
  def f(spec, violation):
    case = getattr(violation, 'data', None)
    return bool(case) and pred(case, violation)
  return f


kf_dw_drq_tensorwise = _with_case(kfpred.dw_drq_tensorwise)
kf_emb_int4_odd_width = _with_case(kfpred.emb_int4_odd_width)
kf_bmm_const_lhs = _with_case(kfpred.bmm_const_lhs)
kf_bmm_static_const_channelwise = _with_case(c07.kf_bmm_static_const_channelwise)
kf_bias_int32_saturated = _with_case(c07.kf_bias_int32_saturated)


def kf_addsub_output_scale(spec, violation):
  case = getattr(violation, 'data', None)
  if not case:
    return False
  out = engine.run(case)
  return out.ok and kfpred.addsub_multiplier_overflow(fb.parse(out.qbytes))


def phases(tier):
  big = tier == 'thorough'
  k = 80 if big else 3
  return [
      {'name': 'acceptance', 'kind': 'enum', 'items': acceptance_items, 'run': run_acceptance},
      {'name': 'soundness', 'kind': 'enum', 'items': lambda: soundness_items(k), 'run': run_soundness},
  ]
