"""C17 - quantization arithmetic obeys its algebraic laws on all inputs."""
import math

import numpy as np
from hypothesis import strategies as st

from ai_edge_quantizer import qtyping
from ai_edge_quantizer.algorithms.uniform_quantize import uniform_quantize_tensor as uqt

from vq import core, fb
from vq.core import Violation

META = {
    'level': 'exploration',
    'rule': ('Hypothesis-generated (min,max,bits,symmetry,dtype,shape) and '
             'tensors of rank 0..4 with any quantized dimension; plus every '
             'integer code of the 4- and 8-bit types against a grid of '
             'library-produced parameter sets; a sub-population of ranges and '
             'tensors lies exactly on the code lattice so that the zero point '
             'is exactly 0, an end of the type or next to one, and min/max are '
             'exactly the end codes. Non-trivial = asymmetric with '
             'zero point != 0, or per-channel with >= 2 channels; distinct by '
             'hash of the drawn case.'),
    'assumptions': [
        'numpy float semantics; statistics arrive as float32 or float64 '
        'scalars/arrays as produced by np.min/np.max(keepdims=True)',
        'tolerance: half a step plus 1% of a step for float32 rounding of '
        'x/scale'],
    'exhaustive': {'quick': False, 'thorough': False},
}

BITS = [4, 8, 16]
STEP_TOL = 0.51


def qrange(bits, symmetric):
  lo, hi = -(2 ** (bits - 1)), 2 ** (bits - 1) - 1
  return (lo + 1 if symmetric else lo), hi


def np_dtype(name):
  return {'f32': np.float32, 'f64': np.float64}[name]


# ---------------------------------------------------------------- strategies
def _floats(width):
  return st.floats(allow_nan=False, allow_infinity=False, width=width)


def _fl(lo, hi, width):
  if width == 32:
    lo, hi = float(np.float32(lo)), float(np.float32(hi))
  return st.floats(lo, hi, width=width)


EDGE_ZPS = lambda lo, hi: [lo, lo, lo + 1, -1, 0, 0, 0, 1, hi - 1, hi, hi]


@st.composite
def ranges(draw, width=None, bits=None):
  if width is None:
    width = draw(st.sampled_from([32, 32, 64]))
  kind = draw(st.sampled_from(['any', 'any', 'moderate', 'moderate', 'moderate',
                               'degenerate', 'positive', 'negative', 'tiny',
                               'huge', 'zero'] + (['lattice'] * 3 if bits else [])))
  if kind == 'lattice':
    # a range that lies exactly on the code lattice of `bits`: the asymmetric
    # zero point is exactly the chosen t (incl. 0 and both ends of the type) and
    # min / max are exactly the lowest / highest code
    lo_c, hi_c = -(2 ** (bits - 1)), 2 ** (bits - 1) - 1
    t = draw(st.one_of(st.sampled_from(EDGE_ZPS(lo_c, hi_c)), st.integers(lo_c, hi_c)))
    step = 2.0 ** draw(st.integers(-12, 8))
    a, b = (lo_c - t) * step, (hi_c - t) * step
  elif kind == 'any':
    a, b = draw(_floats(width)), draw(_floats(width))
  elif kind == 'moderate':
    a = draw(_fl(-100, 100, width))
    b = draw(_fl(-100, 100, width))
  elif kind == 'degenerate':
    a = b = draw(st.one_of(_floats(width), _fl(-10, 10, width)))
  elif kind == 'positive':
    a = draw(_fl(0, 1e3, width)); b = draw(_fl(0, 1e3, width))
  elif kind == 'negative':
    a = draw(_fl(-1e3, 0, width)); b = draw(_fl(-1e3, 0, width))
  elif kind == 'tiny':
    a = draw(_fl(-1e-5, 1e-5, width)); b = draw(_fl(-1e-5, 1e-5, width))
  elif kind == 'huge':
    big = 3.0e38 if width == 32 else 1.5e308
    a = draw(_fl(-big, big, width)); b = draw(_fl(-big, big, width))
  else:
    a = b = 0.0
  if width == 32:  # keep every value exactly representable (and finite) in float32
    f32max = float(np.finfo(np.float32).max)
    a, b = (float(np.float32(min(max(v, -f32max), f32max))) for v in (a, b))
  lo, hi = (a, b) if a <= b else (b, a)
  return {'min': lo, 'max': hi, 'dtype': 'f32' if width == 32 else 'f64',
          'kind': kind}


@st.composite
def params_cases(draw):
  nch = draw(st.sampled_from([0, 0, 1, 1, 2, 3]))  # 0: 0-d scalar
  width = draw(st.sampled_from([32, 32, 64]))
  bits = draw(st.sampled_from(BITS))
  chans = [draw(ranges(width, bits)) for _ in range(max(1, nch))]
  dt = chans[0]['dtype']
  return {'bits': bits, 'symmetric': draw(st.booleans()),
          'dtype': dt, 'zero_d': nch == 0,
          'mins': [c['min'] for c in chans], 'maxs': [c['max'] for c in chans],
          'kinds': [c['kind'] for c in chans],
          'python_float': nch == 0 and draw(st.booleans())}


def lib_params(case):
  dt = np_dtype(case['dtype'])
  if case.get('python_float'):
    mn, mx = float(case['mins'][0]), float(case['maxs'][0])
  elif case['zero_d']:
    mn, mx = dt(case['mins'][0]), dt(case['maxs'][0])
  else:
    mn = np.array(case['mins'], dt).reshape(-1, 1)
    mx = np.array(case['maxs'], dt).reshape(-1, 1)
  return uqt.tensor_zp_scale_from_min_max(mn, mx, case['bits'], case['symmetric'])


# ---------------------------------------------------------------- phase A
def run_params(case):
  bits, sym = case['bits'], case['symmetric']
  ok, r = core.call(lib_params, case)
  if not ok:
    raise Violation('params_raises', '%r for %s' % (r, case))
  zp, scale = r
  zp_a, sc_a = np.asarray(zp), np.asarray(scale)
  labels = ['bits=%d' % bits, 'sym' if sym else 'asym', case['dtype']]
  labels += ['range:' + k for k in set(case['kinds'])]
  if sc_a.shape != zp_a.shape:
    raise Violation('shape_mismatch', '%s vs %s' % (sc_a.shape, zp_a.shape))
  if not np.all(np.isfinite(sc_a)) or not np.all(sc_a > 0):
    raise Violation('scale_not_finite_positive', 'scale=%r for %s' % (sc_a.tolist(), case))
  if not np.issubdtype(zp_a.dtype, np.signedinteger):
    raise Violation('zp_dtype', str(zp_a.dtype))
  qlo_full, qhi = -(2 ** (bits - 1)), 2 ** (bits - 1) - 1
  if np.any(zp_a.astype(np.int64) < qlo_full) or np.any(zp_a.astype(np.int64) > qhi):
    raise Violation('zp_out_of_range', 'zp=%r' % zp_a.tolist())
  if sym and np.any(zp_a != 0):
    raise Violation('zp_nonzero_symmetric', 'zp=%r' % zp_a.tolist())
  # zero exactly representable with the library's own dequantize
  qp = qtyping.UniformQuantParams(num_bits=bits, quantized_dimension=None if zp_a.size == 1 else 0,
                                  scale=sc_a, zero_point=zp_a, symmetric=sym)
  codes = zp_a.copy()
  ok, dz = core.call(uqt.uniform_dequantize, codes, qp)
  if not ok:
    raise Violation('dequantize_raises', repr(dz))
  if np.any(np.asarray(dz) != 0):
    raise Violation('zero_not_representable', 'dequant(zp)=%r' % np.asarray(dz).tolist())
  # coverage of [min,max] (with zero included) up to half a step
  qlo, _ = qrange(bits, sym)
  s64 = sc_a.astype(np.float64).reshape(-1)
  z64 = zp_a.astype(np.int64).reshape(-1)
  for c in range(s64.size):
    mn, mx = float(case['mins'][c]), float(case['maxs'][c])
    lo_repr = (qlo - z64[c]) * s64[c]
    hi_repr = (qhi - z64[c]) * s64[c]
    tol = s64[c] * STEP_TOL + 1e-6 * max(abs(mn), abs(mx))
    if lo_repr > min(mn, 0.0) + tol or hi_repr < max(mx, 0.0) - tol:
      raise Violation('range_not_covered',
                      'min=%r max=%r repr=[%r,%r] step=%r %s' % (mn, mx, lo_repr, hi_repr, s64[c], case))
  nontrivial = (not sym and bool(np.any(zp_a != 0))) or zp_a.size >= 2
  return core.result(nontrivial, labels)


# ---------------------------------------------------------------- phase B
@st.composite
def quant_cases(draw):
  rank = draw(st.integers(0, 4))
  shape = [draw(st.integers(1, 4)) for _ in range(rank)]
  per_channel = rank >= 1 and draw(st.booleans())
  qdim = draw(st.integers(0, rank - 1)) if per_channel else None
  return {
      'shape': shape, 'qdim': qdim, 'bits': draw(st.sampled_from(BITS)),
      'symmetric': draw(st.booleans()),
      'seed': draw(st.integers(0, 2**20)),
      'style': draw(st.sampled_from(['normal', 'positive', 'negative', 'constant',
                                     'outlier', 'tiny', 'big', 'grid', 'zeros',
                                     'lattice', 'lattice'])),
      'mag': draw(st.sampled_from([1e-3, 0.1, 1.0, 7.3, 300.0])),
      # statistics: the tensor's own min/max, or a range that clips / is wider
      'stat': draw(st.sampled_from(['own', 'own', 'own', 'narrow', 'wide'])),
      'perturb_channel': draw(st.integers(0, 3)),
      # parameters as 1-D vectors (the form read back from a flatbuffer) instead of
      # the keep-dims arrays tensor_zp_scale_from_min_max returns
      'flat_params': draw(st.integers(0, 2)) == 0,
  }


def _tensor(case):
  rs = np.random.RandomState(case['seed'])
  shape = tuple(case['shape'])
  a = np.asarray(rs.randn(*shape) if shape else rs.randn(), np.float64)
  style, mag = case['style'], case['mag']
  if style == 'normal':
    a = a * mag
  elif style == 'positive':
    a = np.abs(a) * mag
  elif style == 'negative':
    a = -np.abs(a) * mag
  elif style == 'constant':
    a = np.full(shape, mag)
  elif style == 'outlier':
    a = a * mag
    if a.size:
      a.reshape(-1)[0] *= 50
  elif style == 'tiny':
    a = a * 1e-7
  elif style == 'big':
    a = a * 1e6
  elif style == 'grid':
    a = np.round(a * 2) / 2 * mag
  elif style == 'zeros':
    a = np.zeros(shape)
  elif style == 'lattice':
    # values on the exact code lattice, both end codes present: the tensor's own
    # asymmetric parameters are (zero point t, scale step) exactly
    lo_c, hi_c = -(2 ** (case['bits'] - 1)), 2 ** (case['bits'] - 1) - 1
    edge = EDGE_ZPS(lo_c, hi_c)
    t = edge[rs.randint(len(edge))] if rs.randint(3) else rs.randint(lo_c, hi_c + 1)
    step = 2.0 ** rs.randint(-12, 9)
    codes = np.asarray(rs.randint(lo_c, hi_c + 1, shape) if shape else rs.randint(lo_c, hi_c + 1))
    if codes.size >= 2:
      codes.reshape(-1)[0], codes.reshape(-1)[-1] = lo_c, hi_c
    elif codes.size == 1:
      codes = np.full(codes.shape, lo_c if rs.randint(2) else hi_c)
    a = (codes.astype(np.float64) - t) * step
  return np.asarray(a, np.float32)


def _lib_qparams(x, case):
  qdim = case['qdim']
  if qdim is None:
    axes = None
  else:
    axes = tuple(i for i in range(x.ndim) if i != qdim)
  mn = np.min(x, axis=axes, keepdims=True)
  mx = np.max(x, axis=axes, keepdims=True)
  if case['stat'] == 'narrow':
    mn, mx = mn * np.float32(0.5), mx * np.float32(0.5)
  elif case['stat'] == 'wide':
    mn, mx = mn * np.float32(2.0) - np.float32(0.1), mx * np.float32(2.0) + np.float32(0.1)
  zp, scale = uqt.tensor_zp_scale_from_min_max(mn, mx, case['bits'], case['symmetric'])
  return qtyping.UniformQuantParams(
      num_bits=case['bits'], quantized_dimension=qdim, scale=scale,
      zero_point=zp, symmetric=case['symmetric'])


def _bcast(v, x, qdim):
  v = np.asarray(v).reshape(-1)
  if v.size == 1 or x.ndim == 0:
    return v.reshape(())if v.size == 1 else v
  sh = [1] * x.ndim
  sh[qdim] = v.size
  return v.reshape(sh)


def run_quant(case):
  x = _tensor(case)
  bits, sym, qdim = case['bits'], case['symmetric'], case['qdim']
  labels = ['bits=%d' % bits, 'sym' if sym else 'asym', 'rank=%d' % x.ndim,
            'perchannel' if qdim is not None else 'pertensor', 'stat=' + case['stat']]
  ok, qp = core.call(_lib_qparams, x, case)
  if not ok:
    raise Violation('params_raises', repr(qp))
  if case.get('flat_params'):
    # (a per-tensor entry of a flatbuffer reads back as one scale with
    # quantized_dimension 0, cf. UniformQuantParams.from_tfl_tensor_details)
    qp = qtyping.UniformQuantParams(
        num_bits=qp.num_bits,
        quantized_dimension=(0 if qp.quantized_dimension is None and x.ndim >= 1 else qp.quantized_dimension),
        scale=np.asarray(qp.scale).reshape(-1), zero_point=np.asarray(qp.zero_point).reshape(-1),
        symmetric=qp.symmetric)
    labels.append('flat_params')
  ok, q = core.call(uqt.uniform_quantize, x, qp)
  if not ok:
    raise Violation('quantize_raises', '%r on %s' % (q, case))
  q = np.asarray(q)
  if not np.issubdtype(q.dtype, np.signedinteger) or q.shape != x.shape:
    raise Violation('quantize_output_type', '%s %s' % (q.dtype, q.shape))
  qlo, qhi = qrange(bits, sym)
  if q.size and (q.min() < qlo or q.max() > qhi):
    raise Violation('code_out_of_range', 'min=%d max=%d allowed [%d,%d]' % (q.min(), q.max(), qlo, qhi))
  scale = _bcast(np.asarray(qp.scale, np.float64), x, qdim)
  zp = _bcast(np.asarray(qp.zero_point, np.int64), x, qdim)
  # independent dequantization and half-step error for in-range values
  mine = (q.astype(np.int64) - zp) * scale
  lo, hi = (qlo - zp) * scale, (qhi - zp) * scale
  x64 = x.astype(np.float64)
  inrange = (x64 >= lo) & (x64 <= hi)
  err = np.abs(mine - x64)
  bad = inrange & (err > scale * STEP_TOL + 1e-6 * np.abs(x64))
  if np.any(bad):
    i = np.argwhere(bad)[0]
    raise Violation('roundtrip_error_gt_half_step',
                    'x=%r q=%r deq=%r step=%r %s' % (x64[tuple(i)], q[tuple(i)], mine[tuple(i)], np.broadcast_to(scale, x.shape)[tuple(i)], case))
  # out-of-range values clip to the nearest end
  below, above = x64 < lo, x64 > hi
  if np.any(below & (q != qlo)) or np.any(above & (q != qhi)):
    raise Violation('clip_wrong', str(case))
  # monotone (per channel)
  if x.ndim and x.size > 1:
    xs = np.moveaxis(x64, qdim, 0).reshape(x.shape[qdim], -1) if qdim is not None else x64.reshape(1, -1)
    qs = np.moveaxis(q, qdim, 0).reshape(x.shape[qdim], -1) if qdim is not None else q.reshape(1, -1)
    for c in range(xs.shape[0]):
      o = np.argsort(xs[c], kind='stable')
      if np.any(np.diff(qs[c][o].astype(np.int64)) < 0):
        raise Violation('not_monotone', str(case))
  # the library's own dequantize on its own codes and parameters
  ok, dq = core.call(uqt.uniform_dequantize, q, qp)
  if not ok:
    raise Violation('dequantize_raises', repr(dq))
  dq = np.asarray(dq, np.float64)
  if not np.allclose(dq, mine, rtol=1e-5, atol=1e-30):
    i = np.argwhere(~np.isclose(dq, mine, rtol=1e-5, atol=1e-30))[0]
    raise Violation('lib_dequantize_wrong',
                    'code=%r zp=%r lib=%r expected=%r %s' % (q[tuple(i)], np.broadcast_to(zp, x.shape)[tuple(i)], dq[tuple(i)], mine[tuple(i)], case))
  # per-channel parameters act only along their own channel
  nontrivial = (not sym and bool(np.any(np.asarray(qp.zero_point) != 0)))
  if qdim is not None and x.shape[qdim] >= 2:
    nontrivial = True
    c = case['perturb_channel'] % x.shape[qdim]
    sc2 = np.array(qp.scale, copy=True)
    if sc2.ndim == 1:
      sc2[c] = sc2[c] * 3
    else:
      idx = [0] * sc2.ndim
      idx[qdim] = c
      sc2[tuple(idx)] = sc2[tuple(idx)] * 3
    qp2 = qtyping.UniformQuantParams(num_bits=bits, quantized_dimension=qdim, scale=sc2,
                                     zero_point=qp.zero_point, symmetric=sym)
    q2 = np.asarray(uqt.uniform_quantize(x, qp2))
    diff = np.moveaxis(q2 != q, qdim, 0)
    others = [k for k in range(x.shape[qdim]) if k != c]
    if np.any(diff[others]):
      raise Violation('channel_crosstalk', str(case))
    labels.append('channels>=2')
  return core.result(nontrivial, labels)


# ---------------------------------------------------------------- phase C
def _grid():
  """Parameter sets for the exhaustive code round trip (bits 4 and 8)."""
  items = []
  rng = [(-1.0, 1.0), (0.0, 1.0), (-1.0, 0.0), (-0.3, 2.0), (-2.0, 0.3), (0.0, 0.0),
         (5.0, 6.0), (-6.0, -5.0), (-1e-6, 1e-6), (-1e4, 3e4), (-0.1, 12.7),
         (-12.8, 12.7), (-1.0, 254.0), (-254.0, 1.0), (0.0, 255.0), (-255.0, 0.0),
         (-127.0, 128.0), (-128.0, 127.0), (-3.3e5, 1.1e-3), (1e-3, 2e-3)]
  for bits in (4, 8):
    for sym in (True, False):
      for dt in ('f32', 'f64'):
        for mn, mx in rng:
          items.append({'bits': bits, 'symmetric': sym, 'dtype': dt, 'min': mn, 'max': mx})
  return items


@st.composite
def code_cases(draw):
  bits = draw(st.sampled_from(BITS))
  r = draw(ranges(bits=bits))
  return {'bits': bits, 'symmetric': draw(st.booleans()),
          'dtype': r['dtype'], 'min': r['min'], 'max': r['max'], 'kind': r['kind'],
          'codes16_seed': draw(st.integers(0, 2**16))}


def run_codes(case):
  bits, sym = case['bits'], case['symmetric']
  dt = np_dtype(case['dtype'])
  ok, r = core.call(uqt.tensor_zp_scale_from_min_max, np.array([case['min']], dt),
                    np.array([case['max']], dt), bits, sym)
  if not ok:
    raise Violation('params_raises', repr(r))
  zp, scale = r
  if not np.all(np.isfinite(scale)) or not np.all(np.asarray(scale) > 0):
    # reported by phase params; the code round trip is undefined here
    return core.result(False, ['skipped:nonfinite_scale'])
  qlo, qhi = qrange(bits, sym)
  if bits <= 8:
    codes = np.arange(qlo, qhi + 1)
  else:
    rs = np.random.RandomState(case.get('codes16_seed', 0))
    codes = np.unique(np.concatenate([rs.randint(qlo, qhi + 1, 400),
                                      [qlo, qlo + 1, -1, 0, 1, qhi - 1, qhi]]))
  stored = codes.astype(np.int8 if bits <= 8 else np.int16)
  qp = qtyping.UniformQuantParams(num_bits=bits, quantized_dimension=None,
                                  scale=scale, zero_point=zp, symmetric=sym)
  ok, deq = core.call(uqt.uniform_dequantize, stored, qp)
  if not ok:
    raise Violation('dequantize_raises', repr(deq))
  expect = (codes.astype(np.int64) - int(np.asarray(zp).reshape(-1)[0])) * float(np.asarray(scale, np.float64).reshape(-1)[0])
  deq = np.asarray(deq)
  if not np.allclose(deq.astype(np.float64), expect, rtol=1e-5, atol=1e-30):
    i = int(np.argwhere(~np.isclose(deq.astype(np.float64), expect, rtol=1e-5, atol=1e-30))[0][0])
    raise Violation('lib_dequantize_wrong',
                    'code=%d zp=%r scale=%r lib=%r expected=%r (%s)' % (codes[i], np.asarray(zp).tolist(), np.asarray(scale).tolist(), deq[i], expect[i], case))
  ok, back = core.call(uqt.uniform_quantize, deq, qp)
  if not ok:
    raise Violation('quantize_raises', repr(back))
  back = np.asarray(back).astype(np.int64)
  if np.any(back != codes):
    i = int(np.argwhere(back != codes)[0][0])
    raise Violation('code_roundtrip', 'code=%d came back %d (%s)' % (codes[i], back[i], case))
  nz = bool(np.any(np.asarray(zp) != 0))
  zv = int(np.asarray(zp).reshape(-1)[0])
  edge = 'zp=lowest' if zv == -(2 ** (bits - 1)) else 'zp=highest' if zv == qhi else 'zp=0' if zv == 0 else 'zp=other'
  return core.result(nz and not sym, ['bits=%d' % bits, 'sym' if sym else 'asym',
                                      'codes=%d' % len(codes), ('asym:' + edge) if not sym else 'sym'])


# ---------------------------------------------------------------- phase D
@st.composite
def bias_cases(draw):
  n = draw(st.integers(1, 5))
  return {'n': n, 'seed': draw(st.integers(0, 2**16)),
          'in_bits': draw(st.sampled_from([8, 16])),
          'in_scale': draw(_fl(1e-6, 10.0, 32)),
          'per_channel': draw(st.booleans()),
          'w_scale': [draw(_fl(1e-6, 10.0, 32)) for _ in range(n)],
          'mag': draw(st.sampled_from([1e-3, 1.0, 100.0, 1e6]))}


def run_bias(case):
  n = case['n']
  rs = np.random.RandomState(case['seed'])
  bias = (rs.randn(n) * case['mag']).astype(np.float32)
  in_qp = qtyping.UniformQuantParams(num_bits=case['in_bits'], quantized_dimension=None,
                                     scale=np.array([case['in_scale']], np.float32),
                                     zero_point=np.array([0], np.int32), symmetric=True)
  ws = np.array(case['w_scale'] if case['per_channel'] else case['w_scale'][:1], np.float32)
  w_qp = qtyping.UniformQuantParams(num_bits=8, quantized_dimension=0 if case['per_channel'] else None,
                                    scale=ws, zero_point=np.zeros_like(ws, np.int32), symmetric=True)
  ok, r = core.call(uqt.symmetric_quantize_bias_tensor, bias, in_qp, w_qp)
  if not ok:
    raise Violation('bias_raises', repr(r))
  eff = (np.float64(case['in_scale']) * ws.astype(np.float64))
  sc = np.asarray(r.scale, np.float64).reshape(-1)
  if sc.size != eff.size or not np.allclose(sc, eff, rtol=1e-6):
    raise Violation('bias_scale', '%r vs %r' % (sc.tolist(), eff.tolist()))
  if np.any(np.asarray(r.zero_point) != 0):
    raise Violation('bias_zp', repr(r.zero_point))
  want_bits = 64 if case['in_bits'] == 16 else 32
  if r.num_bits != want_bits:
    raise Violation('bias_bits', str(r.num_bits))
  lim = 2 ** (want_bits - 1) - 1
  exact = bias.astype(np.float64) / (sc if sc.size == n else np.full(n, sc[0]))
  got = np.asarray(r.quantized_data).astype(np.float64).reshape(-1)
  unsat = np.abs(exact) < lim * 0.999
  tol = 0.51 + np.abs(exact) * 2e-6
  if np.any(unsat & (np.abs(got - exact) > tol)):
    raise Violation('bias_value', 'exact=%r got=%r' % (exact.tolist(), got.tolist()))
  # dequantizing the stored codes with the returned parameters gives the bias
  # back within half a step - also for 64-bit codes beyond the 32-bit range
  ok, deq = core.call(uqt.uniform_dequantize, np.asarray(r.quantized_data), r)
  if not ok:
    raise Violation('bias_dequantize_raises', repr(deq))
  deq = np.asarray(deq, np.float64).reshape(-1)
  step = sc if sc.size == n else np.full(n, sc[0])
  if np.any(unsat & (np.abs(deq - bias.astype(np.float64)) > step * 0.51 + np.abs(bias) * 4e-6)):
    i = int(np.argwhere(unsat & (np.abs(deq - bias.astype(np.float64)) > step * 0.51 + np.abs(bias) * 4e-6))[0][0])
    raise Violation('bias_dequantize', 'bias=%r code=%r scale=%r dequantized to %r' % (
        float(bias[i]), got[i], float(step[i]), float(deq[i])))
  if want_bits == 32:
    # values beyond the 32-bit range saturate at the nearest end (never wrap)
    sat = np.abs(exact) > lim * 1.001
    if np.any(sat & (got != np.sign(exact) * lim)):
      i = int(np.argwhere(sat & (got != np.sign(exact) * lim))[0][0])
      raise Violation('bias_saturation', 'bias/scale=%r stored as %r, want %r' % (exact[i], got[i], np.sign(exact[i]) * lim))
  return core.result(case['per_channel'] and n >= 2,
                     ['in_bits=%d' % case['in_bits'], 'perchannel' if case['per_channel'] else 'pertensor'] +
                     (['saturating'] if np.any(np.abs(exact) > lim) else []))


def kf_asym_width_overflow(spec, violation):
  """F12: asymmetric range whose width (with zero included) overflows its dtype."""
  if spec.get('symmetric', True):
    return False
  dt = np_dtype(spec['dtype'])
  mins = spec['mins'] if 'mins' in spec else [spec['min']]
  maxs = spec['maxs'] if 'maxs' in spec else [spec['max']]
  with np.errstate(over='ignore'):
    for mn, mx in zip(mins, maxs):
      w = np.maximum(dt(mx), dt(0)) - np.minimum(dt(mn), dt(0))
      if not np.isfinite(w):
        return True
  return False


def phases(tier):
  import os
  k = float(os.environ.get('VERIF_SCALE', '1'))
  big = tier == 'thorough'
  return [
      {'name': 'params', 'kind': 'hyp', 'strategy': params_cases, 'run': run_params,
       'examples': int((150000 if big else 8000) * k)},
      {'name': 'quant', 'kind': 'hyp', 'strategy': quant_cases, 'run': run_quant,
       'examples': int((200000 if big else 8000) * k)},
      {'name': 'codes_grid', 'kind': 'enum', 'items': _grid, 'run': run_codes},
      {'name': 'codes', 'kind': 'hyp', 'strategy': code_cases, 'run': run_codes,
       'examples': int((100000 if big else 3000) * k)},
      {'name': 'bias', 'kind': 'hyp', 'strategy': bias_cases, 'run': run_bias,
       'examples': int((50000 if big else 2000) * k)},
  ]
