"""C01 - quantize() returns a well-formed, runtime-loadable model or raises."""
import os

import numpy as np

from vq import core, engine, fb, interp
from vq.core import Violation
from vq.gen import graph as G
from vq.oracles import wellformed

META = {
    'level': 'exploration',
    'abort_is_violation': True,
    'rule': ('Hypothesis-generated (model spec, recipe, calibration seeds): DAGs '
             'of 1..8 (quick) / 12 (thorough) nodes over the 21 supported ops '
             'plus unsupported float ops, 1..3 subgraphs, shared constants; '
             'shipped recipes or 1..5 generated rules; signature entries / '
             'signature list permuted, tensors listed twice in the outputs, hub '
             'graphs, the Quantizer used between two updates or calibrated '
             'before, batched calibration samples. Non-trivial = quantize() '
             'returned, the result contains >= 1 inserted QUANTIZE/DEQUANTIZE '
             'and the graph has a multi-consumer tensor, a repeated operand, an '
             'exported-and-consumed tensor or an exported tensor produced at op '
             'index 0; distinct by case hash.'),
    'assumptions': ['LiteRT interpreter (BUILTIN_WITHOUT_DEFAULT_DELEGATES) is the runtime',
                    'interpreter clause skipped for recipes with skip_checks=True'],
    'low_yield': {'label': 'returned', 'floor': 0.6},
}

NT_FEATURES = {'multi_consumer', 'repeated_operand', 'exported_and_consumed',
               'exported_producer_at_0'}


def model_kw(tier):
  return dict(max_nodes=12 if tier == 'thorough' else 8, max_subgraphs=3,
              reuse_const=True, share_buffers=True, dedup=True,
              collide_names=True, unused_results=True)


def check_case(case):
  out = engine.run(case)
  feats = G.features(case['model'])
  labels = ['recipe:' + (case['recipe'].get('name') or 'rules')]
  if out.stage == 'empty_recipe':
    return core.result(False, labels + ['empty_recipe'])
  if not out.ok:
    return core.result(False, labels + ['raised:%s:%s' % (out.stage, core.exc_bucket(out.exc))])
  labels.append('returned')
  try:
    model = fb.parse(out.qbytes)
  except Exception as e:  # pylint: disable=broad-except
    raise Violation('unparseable', repr(e))
  src = fb.parse(out.model_bytes)
  wellformed.check(model, src)
  n_ins = sum(len(x) for x in wellformed.inserted_ops(model, src))
  labels.append('inserted_ops>0' if n_ins else 'inserted_ops=0')
  if engine.uses_skip_checks(out):
    labels.append('skip_checks:interpreter_clause_skipped')
  else:
    from vq import isolated, kfpred
    u = kfpred.unsafe_findings(case)
    if kfpred.addsub_multiplier_overflow(model):
      u = u + ['addsub-output-scale']
    if u and not kfpred.take_isolation_budget(u):
      labels += ['execution_excluded:' + x for x in u]
    elif u:
      # matches a recorded runtime-UB finding: execute in a throw-away process
      status, r = isolated.run('vq.props.c01', 'interpreter_clause', case)
      labels += ['isolated:' + x for x in u]
      if status == 'violation':
        raise r
      if status == 'abort':
        raise Violation('process_abort', 'interpreter died with signal %s' % r)
    else:
      interpreter_clause(case, out)
  nontrivial = n_ins > 0 and bool(feats & NT_FEATURES)
  labels += ['feat:' + f for f in feats if not f.startswith(('op:', 'nodes='))]
  return core.result(nontrivial, labels)


def interpreter_clause(case, out=None):
  if out is None:
    out = engine.run(case)
  try:
    it = interp.make(out.qbytes)
  except Exception as e:  # pylint: disable=broad-except
    raise Violation('interpreter_prepare_failed', core._NUM.sub('N', str(e))[:300])
  for si, sg in enumerate(case['model']['subgraphs']):
    try:
      runner = it.get_signature_runner(sg['sig'])
      ins = G.make_inputs(case['model'], si, case.get('input_seed', 0))
      det = runner.get_input_details()
      ins = {k: engine.quantize_like_tensor(v, det[k]) for k, v in ins.items()}
      runner(**ins)
    except Exception as e:  # pylint: disable=broad-except
      raise Violation('interpreter_invoke_failed', core._NUM.sub('N', str(e))[:300])
  return None


def kf_addsub_int16_pot(case, violation):
  from vq import kfpred
  return kfpred.addsub_int16_pot(case, violation)


def kf_unsafe_runtime(case, violation):
  """process abort on a model matching one of the recorded runtime-UB findings."""
  from vq import kfpred
  return bool(kfpred.unsafe_findings(case))


def kf_addsub_output_scale(case, violation):
  """The returned model has a quantized ADD/SUB whose output scale is so small
  relative to its input scales that LiteRT's Prepare hits a TFLITE_CHECK."""
  from vq import kfpred
  out = engine.run(case)
  return out.ok and kfpred.addsub_multiplier_overflow(fb.parse(out.qbytes))


def kf_bmm_const_lhs(case, violation):
  """The model has a BATCH_MATMUL whose *left* operand is a constant."""
  for sg in case['model']['subgraphs']:
    for n in sg['nodes']:
      if n['op'] == 'BATCH_MATMUL' and sg['tensors'][n['in'][0]]['kind'] == 'const':
        return True
  return False


def phases(tier):
  k = float(os.environ.get('VERIF_SCALE', '1'))
  big = tier == 'thorough'
  kw = model_kw(tier)
  return [
      {'name': 'pipeline', 'kind': 'hyp',
       'strategy': lambda: engine.cases(model_kw=kw),
       'run': check_case, 'examples': int((60000 if big else 3000) * k)},
  ]
