"""C02 - quantization preserves the graph skeleton and the model I/O contract."""
import os

from vq import core, engine, fb
from vq.core import Violation
from vq.gen import graph as G
from vq.props import c01
from vq.ref import plan, skeleton

META = {
    'level': 'exploration',
    'rule': ('Same generated (model, recipe, calibration) cases as C01, '
             'restricted to those for which quantize() returns. Non-trivial = '
             'the result has >= 1 inserted QUANTIZE/DEQUANTIZE adjacent to a '
             'graph input/output or to a multi-consumer tensor; distinct by '
             'case hash.'),
    'assumptions': ['original tensors keep their indices (new tensors are appended)',
                    'names compared modulo the deleted inserted operators (DESIGN.md C02 FA)'],
    'low_yield': {'label': 'returned', 'floor': 0.6},
}

F32 = fb.TT.FLOAT32


def check_case(case):
  out = engine.run(case)
  labels = ['recipe:' + (case['recipe'].get('name') or 'rules')]
  if out.stage == 'empty_recipe':
    return core.result(False, labels + ['empty_recipe'])
  if not out.ok:
    return core.result(False, labels + ['raised:%s' % out.stage])
  labels.append('returned')
  if (G.build(case['model']) != out.model_bytes or bytes(out.qt.float_model) != out.model_bytes or
      bytes(out.model_arg) != out.model_bytes):
    raise Violation('source_model_mutated', '')
  src, res = fb.parse(out.model_bytes), fb.parse(out.qbytes)
  ms = skeleton.match(src, res)
  # I/O dtype: float32 unless a rule covers INPUT / OUTPUT of that subgraph
  rp = plan.resolve_model(case['model'], plan.ref_recipe(case, out))
  for si, (sg, og) in enumerate(zip(src['subgraphs'], res['subgraphs'])):
    for kind, key in (('inputs', 'input'), ('outputs', 'output')):
      if rp[si][key][2] != 'none':
        labels.append('io_rule_covers_' + key)
        continue
      for pos, t in enumerate(og[kind]):
        want = sg['tensors'][sg[kind][pos]]['type']
        if og['tensors'][t]['type'] != want:
          raise Violation('io_dtype_changed_without_rule',
                          'sg%d %s[%d] %s is %s, source %s; no rule covers %s' % (
                              si, kind, pos, og['tensors'][t]['name'],
                              fb.TYPE_NAME.get(og['tensors'][t]['type']),
                              fb.TYPE_NAME.get(want), key.upper()))
  # non-triviality: an inserted op next to graph I/O or a multi-consumer tensor
  nt = False
  for si, (m, og) in enumerate(zip(ms, res['subgraphs'])):
    cons = fb.consumers(src['subgraphs'][si])
    io = set(src['subgraphs'][si]['inputs']) | set(src['subgraphs'][si]['outputs'])
    for oi in m.inserted:
      o = og['ops'][oi]
      t0 = m.orig(o['inputs'][0])
      if t0 in io or len(cons.get(t0, [])) > 1:
        nt = True
  labels.append('inserted>0' if any(m.inserted for m in ms) else 'inserted=0')
  return core.result(nt, labels)


def phases(tier):
  k = float(os.environ.get('VERIF_SCALE', '1'))
  big = tier == 'thorough'
  kw = c01.model_kw(tier)
  return [
      {'name': 'pipeline', 'kind': 'hyp',
       'strategy': lambda: engine.cases(model_kw=kw),
       'run': check_case, 'examples': int((60000 if big else 3000) * k)},
  ]
