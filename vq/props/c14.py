"""C14 - quantize/calibrate are pure: no input mutation, no history dependence."""
import copy
import hashlib
import json
import os
import subprocess
import sys

import numpy as np
from hypothesis import strategies as st

from ai_edge_quantizer import quantizer as quantizer_mod

from vq import core, engine
from vq.core import Violation
from vq.gen import graph as G
from vq.gen import recipes as R

META = {
    'level': 'exploration',
    'rule': ('Generated call histories (<= 12 steps) over one or two Quantizer '
             'objects on the same generated model: set recipe (shipped or '
             'generated rules, also as a caller-owned list of dicts), single '
             'updates on top of a used recipe, calibrate (optionally resumed), quantize with '
             'the SHARED calibration result object, validate. After every call '
             'all caller-owned objects are compared with deep snapshots, and '
             'every quantize() result is compared (sha256) with a fresh '
             'Quantizer given deep copies of the same arguments; a sample of '
             'cases is re-executed in fresh processes under PYTHONHASHSEED 1 '
             'and 12345. Phase model_by_path: a model file is quantized by '
             'path, a same-size variant is written to the same or another path '
             'and quantized by path; both must equal Quantizer(bytes). Non-trivial = the history quantizes with the same '
             'statistics object under >= 2 different recipes, at least one '
             'touching a same-scale or fixed-range op; distinct by case hash.'),
    'assumptions': ['load_config_policy is outside the history alphabet (documented as replacing the process-wide policy)'],
}

SAME_OR_FIXED = {'RESHAPE', 'TRANSPOSE', 'SPLIT', 'STRIDED_SLICE', 'AVERAGE_POOL_2D',
                 'SOFTMAX', 'LOGISTIC', 'TANH'}


@st.composite
def recipes(draw, mspec):
  if draw(st.integers(0, 1)):
    return {'kind': 'shipped', 'name': draw(st.sampled_from(engine.SHIPPED_NAMES))}
  rules = draw(R.rules_for(engine.op_out_names(mspec), engine.ops_present(mspec),
                           max_rules=3, cfg_pool=R.STATIC_CFGS * 2 + R.FLOAT_COMPUTE_CFGS,
                           allow_skip=False))
  if draw(st.integers(0, 7)) == 0:
    # blockwise (emulated sub-channel) weights for FULLY_CONNECTED: only reachable
    # with skip_checks
    rules = rules + [R.rule('.*', 'FULLY_CONNECTED', R.MINMAX, R.cfg(
        w=[draw(st.sampled_from([8, 4])), True, 'BLOCKWISE', 'INT', draw(st.sampled_from([1, 2, 2]))],
        cp='FLOAT', ed=True, skip=True))]
  if draw(st.integers(0, 2)) == 0:
    # handed over as a caller-owned list of dicts (as read from a recipe file,
    # no_quantize entries without op_config) instead of by update calls
    return {'kind': 'rules', 'rules': rules, 'via_load': True}
  return {'kind': 'rules', 'rules': rules}


@st.composite
def cases(draw, tier):
  mspec = draw(G.model_specs(max_nodes=6, max_subgraphs=2))
  n = draw(st.integers(2, 12 if tier == 'thorough' else 8))
  nq = draw(st.integers(1, 2))
  steps = [{'do': 'recipe', 'q': 0, 'recipe': draw(recipes(mspec))}]
  if draw(st.integers(0, 2)):
    # the normal exploration workflow: calibrate once, quantize under several
    # recipes with the same calibration result object
    static = lambda: {'kind': 'shipped', 'name': draw(st.sampled_from(
        ['default_a8w8_recipe', 'default_a16w8_recipe']))} if draw(st.booleans()) else {
            'kind': 'rules', 'rules': draw(R.rules_for(
                engine.op_out_names(mspec), engine.ops_present(mspec), max_rules=3,
                cfg_pool=R.STATIC_CFGS, allow_skip=False, allow_noq=False))}
    steps = [{'do': 'recipe', 'q': 0, 'recipe': static()},
             {'do': 'calibrate', 'q': 0, 'seeds': [draw(st.integers(0, 99))], 'resume': False},
             {'do': 'quantize', 'q': 0}]
    for _ in range(draw(st.integers(1, 3))):
      q = draw(st.integers(0, nq - 1))
      steps.append({'do': 'recipe', 'q': q, 'recipe': static() if draw(st.integers(0, 3)) else draw(recipes(mspec))})
      if draw(st.integers(0, 3)) == 0:
        steps.append({'do': 'calibrate', 'q': q, 'seeds': [draw(st.integers(0, 99))], 'resume': True})
      steps.append({'do': 'quantize', 'q': q})
      if draw(st.integers(0, 3)) == 0:
        steps.append({'do': 'validate', 'q': q, 'metric': 'mse', 'seed': draw(st.integers(0, 99))})
    n = draw(st.integers(0, 3))
  for _ in range(n):
    k = draw(st.integers(0, 9))
    q = draw(st.integers(0, nq - 1))
    if k <= 1:
      steps.append({'do': 'recipe', 'q': q, 'recipe': draw(recipes(mspec))})
    elif k == 2:
      steps.append({'do': 'update', 'q': q, 'rule': draw(R.rules_for(
          engine.op_out_names(mspec), engine.ops_present(mspec), max_rules=1,
          cfg_pool=R.STATIC_CFGS + R.FLOAT_COMPUTE_CFGS, allow_skip=False))[0]})
    elif k <= 4:
      steps.append({'do': 'calibrate', 'q': q, 'seeds': [draw(st.integers(0, 99)) for _ in range(draw(st.integers(1, 2)))],
                    'resume': draw(st.booleans())})
    elif k <= 8:
      steps.append({'do': 'quantize', 'q': q})
    else:
      steps.append({'do': 'validate', 'q': q, 'metric': draw(st.sampled_from(['mse', 'median_diff_ratio'])),
                    'seed': draw(st.integers(0, 99))})
  # a quarter of the histories run with every quantize() on the large-model
  # (external buffer) serialization path - the hook's threshold, which the
  # fresh process inherits
  return {'model': mspec, 'steps': steps, 'nq': nq, 'large': draw(st.integers(0, 3)) == 0}


LARGE_ENV = 'AI_EDGE_QUANTIZER_VERIF_LARGE_MODEL_THRESHOLD'

def deep_equal(a, b):
  if isinstance(a, np.ndarray) or isinstance(b, np.ndarray):
    return (isinstance(a, np.ndarray) and isinstance(b, np.ndarray) and
            a.dtype == b.dtype and a.shape == b.shape and np.array_equal(a, b, equal_nan=True))
  if isinstance(a, dict):
    return isinstance(b, dict) and list(a.keys()) == list(b.keys()) and all(deep_equal(a[k], b[k]) for k in a)
  if isinstance(a, (list, tuple)):
    return type(a) is type(b) and len(a) == len(b) and all(deep_equal(x, y) for x, y in zip(a, b))
  if isinstance(a, (np.floating, np.integer)) or isinstance(b, (np.floating, np.integer)):
    return type(a) is type(b) and a == b
  return a == b


def set_recipe(qt, recipe, check_arg=True):
  """Applies a recipe spec (base recipe, then the later single updates)."""
  n = _set_base(qt, recipe, check_arg)
  for r in recipe.get('then', []):
    apply_update(qt, r)
  return n


def apply_update(qt, r):
  try:
    qt.update_quantization_recipe(r['regex'], r['op'], R.make_config(r['cfg']), r['algo'])
    return True
  except ValueError:
    return False


def _set_base(qt, recipe, check_arg=True):
  """Applies a recipe spec; returns number of accepted rules (None = shipped)."""
  if recipe['kind'] == 'shipped':
    arg = copy.deepcopy(R.shipped_recipes()[recipe['name']])
    snap = copy.deepcopy(arg)
    qt.load_quantization_recipe(arg)
    if check_arg and not deep_equal(arg, snap):
      raise Violation('recipe_argument_mutated', 'load_quantization_recipe changed the list passed in')
    return None
  qt.load_quantization_recipe([])
  if recipe.get('via_load'):
    arg = []
    for r in recipe['rules']:
      try:
        R.make_config(r['cfg'])
      except ValueError:
        continue
      if r['algo'] == R.NOQ or r['cfg']['w'] is not None:
        arg.append(R.rule_dict(r))
    snap = copy.deepcopy(arg)
    try:
      qt.load_quantization_recipe(arg)
    except ValueError:
      qt.load_quantization_recipe([])
      arg = snap = []
    if check_arg and not deep_equal(arg, snap):
      raise Violation('recipe_argument_mutated',
                      'load_quantization_recipe changed the list passed in: %s -> %s' % (core.jdump(snap)[:300], core.jdump(arg)[:300]))
    return len(arg)
  n = 0
  for r in recipe['rules']:
    try:
      cfg = R.make_config(r['cfg'])
      csnap = copy.deepcopy(cfg)
      qt.update_quantization_recipe(r['regex'], r['op'], cfg, r['algo'])
      n += 1
    except ValueError:
      continue
    finally:
      pass
    if check_arg and cfg != csnap:
      raise Violation('config_argument_mutated', 'update_quantization_recipe changed the config passed in')
  return n


def calibrate_all(qt, mspec, seeds, previous):
  res = previous
  for si, sg in enumerate(mspec['subgraphs']):
    data = engine.calibration_data(mspec, si, seeds)
    data_snap = copy.deepcopy(data)
    prev_snap = copy.deepcopy(res)
    out = qt.calibrate(data, sg['sig'], res)
    if not deep_equal(data, data_snap):
      raise Violation('calibration_data_mutated', 'signature %s' % sg['sig'])
    if res is not None and not deep_equal(res, prev_snap):
      raise Violation('previous_calibration_result_mutated', 'signature %s' % sg['sig'])
    res = out
  return res


def sha(b):
  return hashlib.sha256(bytes(b)).hexdigest()


def fresh_quantize(model_bytes, recipe, calib):
  qt = quantizer_mod.Quantizer(bytes(model_bytes))
  set_recipe(qt, recipe, check_arg=False)
  ok, r = core.call(qt.quantize, copy.deepcopy(calib))
  return (True, sha(r.quantized_model)) if ok else (False, type(r).__name__)


def check_case(case):
  old = os.environ.pop(LARGE_ENV, None)
  if case.get('large'):
    os.environ[LARGE_ENV] = '-1'
  try:
    return _check_case(case)
  finally:
    os.environ.pop(LARGE_ENV, None)
    if old is not None:
      os.environ[LARGE_ENV] = old


def _check_case(case):
  mspec = case['model']
  model_bytes = bytearray(G.build(mspec))   # caller-owned and mutable
  model_snap = bytes(model_bytes)
  qts = [quantizer_mod.Quantizer(model_bytes) for _ in range(case['nq'])]
  cur_recipe = [None] * case['nq']
  quantized = [False] * case['nq']
  shared = {'calib': None}
  labels = []
  returned = []  # (object returned to the caller earlier, deep snapshot, what)
  recipes_used_with_calib = []
  triples = []
  for k, s in enumerate(case['steps']):
    qt = qts[s['q']]
    where = 'step %d %s(q%d)' % (k, s['do'], s['q'])
    if s['do'] == 'recipe':
      set_recipe(qt, s['recipe'])
      cur_recipe[s['q']] = s['recipe']
    elif s['do'] == 'update':
      # one more rule on top of whatever the object holds (no reset)
      if cur_recipe[s['q']] is None:
        continue
      if apply_update(qt, s['rule']):
        cur_recipe[s['q']] = dict(cur_recipe[s['q']], then=list(cur_recipe[s['q']].get('then', [])) + [s['rule']])
      else:
        # a refused update must leave no trace: the fresh Quantizer it is compared
        # with never sees it
        labels.append('update_refused')
      labels.append('update_after_use' if quantized[s['q']] or shared['calib'] is not None else 'update')
    elif s['do'] == 'calibrate':
      if cur_recipe[s['q']] is None or not qt.get_quantization_recipe():
        continue
      prev = shared['calib'] if s['resume'] else None
      try:
        res = calibrate_all(qt, mspec, s['seeds'], prev)
      except Violation:
        raise
      except Exception as e:  # pylint: disable=broad-except
        labels.append('calibrate_raised')
        continue
      # calibrate() itself must not depend on earlier calls on this Quantizer
      fresh = quantizer_mod.Quantizer(bytes(model_snap))
      set_recipe(fresh, cur_recipe[s['q']], check_arg=False)
      try:
        want = calibrate_all(fresh, mspec, s['seeds'], copy.deepcopy(prev))
      except Exception:  # pylint: disable=broad-except
        want = None
      if want is not None and not deep_equal(res, want):
        raise Violation('calibrate_depends_on_history',
                        where + ': differs from a fresh Quantizer given equal arguments: ' + _diff(res, want))
      returned.append((res, copy.deepcopy(res), 'calibration result returned at ' + where))
      if res:
        shared['calib'] = res
      labels.append('calibrate')
    elif s['do'] == 'quantize':
      if cur_recipe[s['q']] is None or not qt.get_quantization_recipe():
        continue
      calib = shared['calib']
      snap = copy.deepcopy(calib)
      ok, r = core.call(qt.quantize, calib)
      if not deep_equal(calib, snap):
        raise Violation('calibration_result_mutated_by_quantize', where + ': ' + _diff(calib, snap))
      want = fresh_quantize(model_snap, cur_recipe[s['q']], snap)
      got = (True, sha(r.quantized_model)) if ok else (False, type(r).__name__)
      if got != want:
        raise Violation('quantize_depends_on_history',
                        '%s: this Quantizer %s, fresh Quantizer with equal arguments %s' % (where, got, want))
      if ok:
        quantized[s['q']] = True
        labels.append('quantize_ok')
        if calib is not None:
          recipes_used_with_calib.append((id(calib), core.jdump(cur_recipe[s['q']])))
        triples.append((cur_recipe[s['q']], snap, got[1]))
      else:
        labels.append('quantize_raised')
    else:
      if not quantized[s['q']]:
        continue
      from vq import kfpred
      if engine.must_not_execute({'model': mspec, 'recipe': cur_recipe[s['q']]}, bytes(qt._result.quantized_model)):  # pylint: disable=protected-access
        labels.append('validate_excluded:runtime_ub_finding')
        continue
      test = {sg['sig']: engine.calibration_data(mspec, si, [s['seed']]) for si, sg in enumerate(mspec['subgraphs'])}
      test_snap = copy.deepcopy(test)
      ok, r = core.call(qt.validate, test, s['metric'])
      if not deep_equal(test, test_snap):
        raise Violation('test_data_mutated_by_validate', where)
      labels.append('validate_ok' if ok else 'validate_raised')
    if bytes(model_bytes) != model_snap or any(bytes(q.float_model) != model_snap for q in qts):
      raise Violation('model_bytes_mutated', where)
    for obj, snap, what in returned:
      if not deep_equal(obj, snap):
        raise Violation('earlier_result_mutated', '%s was modified by %s: %s' % (what, where, _diff(obj, snap)))
  # fresh processes under other hash seeds (sampled)
  every = 12 if os.environ.get('VERIF_TIER_C14') == 'thorough' else 32
  if case.get('large'):
    every = every // 4     # process-global state behind the rarely used serializer
    labels.append('large_model_path')
  if triples and int(core.spec_hash(case), 16) % every == 0:
    recipe, calib, want = triples[-1]
    for hs in (('12345',) if case.get('large') else ('1', '12345')):
      got = _child_hash(mspec, recipe, calib, hs)
      if got != want:
        raise Violation('output_depends_on_process_or_hash_seed',
                        'PYTHONHASHSEED=%s: %s vs in-process %s' % (hs, got, want))
    labels.append('fresh_process_checked')
  by_calib = {}
  for cid, rj in recipes_used_with_calib:
    by_calib.setdefault(cid, set()).add(rj)
  ops = {n['op'] for sg in mspec['subgraphs'] for n in sg['nodes']}
  nt = any(len(v) >= 2 for v in by_calib.values()) and bool(ops & SAME_OR_FIXED)
  return core.result(nt, sorted(set(labels)))


def _diff(a, b):
  if a is None or b is None:
    return 'None vs value'
  out = []
  for k in b:
    if k not in a or not deep_equal(a[k], b[k]):
      out.append('%s: %s -> %s' % (k, _short(b.get(k)), _short(a.get(k))))
  for k in a:
    if k not in b:
      out.append('%s: added' % k)
  return '; '.join(out[:4])


def _short(q):
  try:
    return {k: np.asarray(v).reshape(-1)[:3].tolist() for k, v in q.items()}
  except Exception:  # pylint: disable=broad-except
    return repr(q)[:80]


def _child_hash(mspec, recipe, calib, hashseed):
  payload = core.jdump({'model': mspec, 'recipe': recipe, 'calib': _enc(calib)})
  env = dict(os.environ)
  env['PYTHONHASHSEED'] = hashseed
  p = subprocess.run([sys.executable, '-m', 'vq.props.c14', '--child'], input=payload,
                     capture_output=True, text=True, env=env, cwd=core.VERIF)
  for l in p.stdout.splitlines():
    if l.startswith('HASH '):
      return l[5:].strip()
  raise core.HarnessError('child failed: ' + (p.stderr or p.stdout)[-1500:])


def _enc(calib):
  if calib is None:
    return None
  return {k: {kk: {'v': np.asarray(vv).tolist(), 'dtype': str(np.asarray(vv).dtype),
                   'shape': list(np.asarray(vv).shape)} for kk, vv in q.items()}
          for k, q in calib.items()}


def _dec(calib):
  if calib is None:
    return None
  return {k: {kk: np.array(vv['v'], dtype=vv['dtype']).reshape(vv['shape']) for kk, vv in q.items()}
          for k, q in calib.items()}


# ---- the model given as a file path -----------------------------------------
@st.composite
def path_cases(draw):
  mspec = draw(G.model_specs(max_nodes=4, max_subgraphs=1))
  return {'model': mspec,
          'recipe': {'kind': 'shipped', 'name': draw(st.sampled_from(engine.SHIPPED_NAMES))},
          'seed': draw(st.integers(0, 99)), 'same_path': draw(st.booleans())}


def _variant(mspec):
  """Same graph, other constant values (a re-trained checkpoint): same file size."""
  v = copy.deepcopy(mspec)
  for sg in v['subgraphs']:
    for t in sg['tensors']:
      if t['kind'] == 'const' and isinstance(t.get('data'), dict) and 'seed' in t['data']:
        t['data']['seed'] = t['data']['seed'] + 7
  return v


def _path_quantize(path_or_bytes, case, mspec):
  qt = quantizer_mod.Quantizer(path_or_bytes)
  set_recipe(qt, case['recipe'], check_arg=False)
  calib = None
  if qt.need_calibration:
    try:
      calib = calibrate_all(qt, mspec, [case['seed']], None)
    except Violation:
      raise
    except Exception as e:  # pylint: disable=broad-except
      return (False, 'calibrate:' + type(e).__name__)
  ok, r = core.call(qt.quantize, calib)
  return (True, sha(r.quantized_model)) if ok else (False, type(r).__name__)


def check_path_case(case):
  """Quantizer(path) equals Quantizer(bytes of that file), whatever was read from
  that (or another) path earlier in the process."""
  import tempfile, shutil
  a, b = G.build(case['model']), G.build(_variant(case['model']))
  d = tempfile.mkdtemp(prefix='vqc14_')
  try:
    p1 = os.path.join(d, 'model.tflite')
    p2 = p1 if case['same_path'] else os.path.join(d, 'model2.tflite')
    with open(p1, 'wb') as f:
      f.write(a)
    try:
      got_a = _path_quantize(p1, case, case['model'])
    except Exception as e:  # pylint: disable=broad-except
      return core.result(False, ['raised:' + type(e).__name__])
    with open(p2, 'wb') as f:
      f.write(b)
    got_b = _path_quantize(p2, case, case['model'])
    with open(p1, 'rb') as f:
      if p1 != p2 and f.read() != a:
        raise Violation('model_file_modified', 'the file passed by path was rewritten')
  finally:
    shutil.rmtree(d, ignore_errors=True)
  want_a = _path_quantize(bytes(a), case, case['model'])
  want_b = _path_quantize(bytes(b), case, case['model'])
  if got_a != want_a:
    raise Violation('path_and_bytes_differ', 'first model: by path %s, by content %s' % (got_a, want_a))
  if got_b != want_b:
    raise Violation('quantize_depends_on_history',
                    'model read from %s after another model had been read from it: by path %s, by content %s' % (
                        'the same path' if case['same_path'] else 'another path', got_b, want_b))
  return core.result(got_b[0] and a != b and len(a) == len(b),
                     ['same_path' if case['same_path'] else 'other_path',
                      'quantized' if got_b[0] else 'raised', 'same_size' if len(a) == len(b) else 'other_size'])


def phases(tier):
  k = float(os.environ.get('VERIF_SCALE', '1'))
  big = tier == 'thorough'
  os.environ['VERIF_TIER_C14'] = tier
  return [
      {'name': 'histories', 'kind': 'hyp', 'strategy': lambda: cases(tier),
       'run': check_case, 'examples': int((12000 if big else 1200) * k)},
      {'name': 'model_by_path', 'kind': 'hyp', 'strategy': path_cases,
       'run': check_path_case, 'examples': int((4000 if big else 300) * k)},
  ]


if __name__ == '__main__' and '--child' in sys.argv:
  d = json.loads(sys.stdin.read())
  ok, h = fresh_quantize(G.build(d['model']), d['recipe'], _dec(d['calib']))
  print('HASH %s' % (h,))
