"""C11 - recipe resolution follows last-applicable-rule-wins."""
import itertools
import os

from hypothesis import strategies as st

from ai_edge_quantizer import algorithm_manager
from ai_edge_quantizer import qtyping
from ai_edge_quantizer import quantizer as quantizer_mod
from ai_edge_quantizer import recipe_manager

from vq import core
from vq.core import Violation
from vq.gen import recipes as R
from vq.ref.resolve import RefRecipe

META = {
    'level': 'exploration',
    'rule': ('(i) every add-history up to length 2 (quick) / 3 (thorough) over '
             '5 regexes x 4 selectors x 6 (algorithm, config) choices is '
             'enumerated and its final state compared with the reference '
             'resolver on a 6x8 (operator, scope) grid; (ii) Hypothesis '
             'histories of up to 30 add/load/load-export steps over the full '
             'selector set and config lattice, compared after every step. '
             'Non-trivial = history re-adds an operator under an existing regex, '
             'resets a regex with "*" after specific ops, or contains a rule '
             'that is unsupported for a queried op and shadows an applicable '
             'one; distinct by history hash.'),
    'assumptions': [
        'the support predicate inside the reference is the library\'s own '
        'check_op_quantization_config (C13 is about that predicate)'],
    'exhaustive': {'quick': True, 'thorough': True},
}

_DEFAULT_CFG = qtyping.OpQuantizationConfig()
_cfg_cache = {}
_sup_cache = {}


def cfg_obj(c):
  k = core.jdump(c)
  if k not in _cfg_cache:
    _cfg_cache[k] = R.make_config(c)
  return _cfg_cache[k]


# ---- the process-wide config-check policy of the min/max algorithm can be
# replaced at any time (Quantizer.load_config_policy /
# algorithm_manager.register_config_check_policy_func); resolution checks a
# rule's support at lookup time, i.e. under the policy in force *then*.
_POLICY = ['default']


def _policies():
  import json
  from ai_edge_quantizer import default_policy
  if not _policies.cache:
    pol_dir = os.path.join(core.REPO, 'ai_edge_quantizer', 'policies')
    base = json.loads(default_policy.DEFAULT_JSON_POLICY)
    int8 = {'configs': {k: v for k, v in base['configs'].items()
                        if (v.get('weight_tensor_config') or {}).get('num_bits') in (8, None)},
            'ops_per_config': {}}
    int8['ops_per_config'] = {k: v for k, v in base['ops_per_config'].items() if k in int8['configs']}
    _policies.cache.update({
        'default': (None, default_policy.DEFAULT_CONFIG_CHECK_POLICY),
        'example': (os.path.join(pol_dir, 'example_config_policy.json'), None),
        'dummy': (os.path.join(pol_dir, 'dummy_config_policy.json'), None),
        'int8only': (None, default_policy.update_default_config_policy(json.dumps(int8))),
    })
    for k, (path, pol) in list(_policies.cache.items()):
      if pol is None:
        with open(path) as f:
          _policies.cache[k] = (path, default_policy.update_default_config_policy(f.read()))
  return _policies.cache


_policies.cache = {}
POLICY_NAMES = ['default', 'example', 'dummy', 'int8only']


def set_policy(name, via=None):
  path, pol = _policies()[name]
  if via is not None and path is not None:
    via.load_config_policy(path)          # the public Quantizer method
  else:
    algorithm_manager.register_config_check_policy_func(
        algorithm_manager.AlgorithmName.MIN_MAX_UNIFORM_QUANT, pol)
  _POLICY[0] = name


def supported(algo, op, cfg):
  k = (algo, op, id(cfg), _POLICY[0])
  if k not in _sup_cache:
    try:
      algorithm_manager.check_op_quantization_config(
          algo, qtyping.TFLOperationName(op), cfg)
      _sup_cache[k] = True
    except ValueError:
      _sup_cache[k] = False
  return _sup_cache[k]


Q_OPS = ['FULLY_CONNECTED', 'CONV_2D', 'SOFTMAX', 'ADD', 'INPUT',
         'EMBEDDING_LOOKUP']
Q_SCOPES = ['model/dense_1/MatMul;', 'model/conv/Conv2D;', 'dense;conv;',
            'zzz_other;', 'model/dense_10/x;', '', 'conv', 'head/softmax;']

E_REGEX = ['.*', 'dense', 'conv', '^model/dense_1', 'zzz']
E_SEL = ['*', 'FULLY_CONNECTED', 'CONV_2D', 'SOFTMAX']
UNSUP = R.cfg(w=[16, True, 'TENSORWISE', 'INT'], cp='INTEGER')
E_CHOICE = [(R.MINMAX, R.DRQ8), (R.MINMAX, R.A8W8), (R.FLOATCAST, R.FP16),
            (R.NOQ, R.DEFAULT), (R.MINMAX, UNSUP),
            (R.MINMAX, dict(UNSUP, skip=True))]


def compare(rm, ref, where):
  """Full query grid + exported recipe vs reference."""
  for op in Q_OPS:
    for scope in Q_SCOPES:
      ok, got = core.call(rm.get_quantization_configs,
                          qtyping.TFLOperationName(op), scope)
      if not ok:
        raise Violation('resolve_raises', '%r at %s' % (got, where))
      want = ref.resolve(op, scope, _DEFAULT_CFG)
      if str(getattr(got[0], 'value', got[0])) != want[0] or got[1] != want[1]:
        raise Violation(
            'resolution_differs',
            'op=%s scope=%r got=(%s,%s) want=(%s,%s) at %s' % (
                op, scope, got[0], got[1], want[0], want[1], where))
  exp = rm.get_quantization_recipe()
  want = ref.export()
  got = [(e['regex'], str(getattr(e['operation'], 'value', e['operation'])),
          str(getattr(e['algorithm_key'], 'value', e['algorithm_key']))) for e in exp]
  if got != [(rg, r[0], r[1]) for rg, r in want]:
    raise Violation('export_order_differs', 'got=%s want=%s at %s' % (got, want, where))


def apply_add(rm, ref, regex, op, algo, c, as_enum, where):
  cfg = cfg_obj(c)
  before = core.jdump(rm.get_quantization_recipe())
  op_arg = qtyping.TFLOperationName(op) if as_enum else op
  algo_arg = algorithm_manager.AlgorithmName(algo) if as_enum else algo
  accept = ref.clone().add(regex, op, algo, cfg)
  ok, err = core.call(rm.add_quantization_config, regex, op_arg, cfg, algo_arg)
  if accept and not ok:
    raise Violation('add_refused_wrongly', '%r at %s' % (err, where))
  if not accept:
    if ok:
      raise Violation('add_accepted_wrongly', 'rule %s %s %s at %s' % (regex, op, algo, where))
    if not isinstance(err, ValueError):
      raise Violation('add_refusal_not_valueerror', '%r at %s' % (err, where))
    if core.jdump(rm.get_quantization_recipe()) != before:
      raise Violation('refused_add_changed_state', where)
    return False
  ref.add(regex, op, algo, cfg)
  return True


# ------------------------------------------------------------ exhaustive
def enum_items(maxlen):
  alphabet = list(itertools.product(range(len(E_REGEX)), range(len(E_SEL)),
                                    range(len(E_CHOICE))))
  for n in range(1, maxlen + 1):
    for h in itertools.product(range(len(alphabet)), repeat=n):
      yield list(h)


_ALPHA = list(itertools.product(range(len(E_REGEX)), range(len(E_SEL)),
                                range(len(E_CHOICE))))


def _nontrivial(steps):
  """steps: list of (regex, op, algo, cfgspec, accepted)."""
  seen = {}
  nt = False
  for regex, op, algo, c, accepted in steps:
    if not accepted:
      continue
    prev = seen.setdefault(regex, [])
    if op in prev:
      nt = True
    if op == '*' and any(p != '*' for p in prev):
      nt = True
    if op == '*':
      prev[:] = ['*']
    else:
      prev.append(op)
    if algo != R.NOQ and not c.get('skip') and seen and len(seen) + len(prev) > 1:
      cfg = cfg_obj(c)
      if any(not supported(algo, q, cfg) for q in Q_OPS) and (op == '*'):
        nt = True
  return nt


def run_enum(h):
  if _POLICY[0] != 'default':
    set_policy('default')
  rm = recipe_manager.RecipeManager()
  ref = RefRecipe(supported)
  steps = []
  for k, a in enumerate(h):
    ri, si, ci = _ALPHA[a]
    algo, c = E_CHOICE[ci]
    acc = apply_add(rm, ref, E_REGEX[ri], E_SEL[si], algo, c, as_enum=(k % 2 == 0),
                    where='history %s step %d' % (h, k))
    steps.append((E_REGEX[ri], E_SEL[si], algo, c, acc))
  compare(rm, ref, 'history %s' % h)
  # purity: a second manager fed the accepted rules agrees; querying twice too
  rm2 = recipe_manager.RecipeManager()
  for (regex, op, algo, c, acc) in steps:
    if acc:
      rm2.add_quantization_config(regex, op, cfg_obj(c), algo)
  if core.jdump(rm2.get_quantization_recipe()) != core.jdump(rm.get_quantization_recipe()):
    raise Violation('not_a_function_of_rule_list', str(h))
  return core.result(_nontrivial(steps), ['len=%d' % len(h)], key=core.spec_hash(h))


# ------------------------------------------------------------ histories
H_REGEX = ['.*', 'dense', 'conv', '^model/dense_1', 'zzz', 'MatMul;$', '^$',
           'model/.*/x', r'dense_1\b', '(dense|conv)', ';']


@st.composite
def rule_specs(draw):
  regex = draw(st.sampled_from(H_REGEX))
  op = draw(st.sampled_from(R.SELECTORS + ['CUSTOM_OP', '*', '*', 'FULLY_CONNECTED', 'CONV_2D']))
  if draw(st.integers(0, 5)) == 0:
    return R.rule(regex, op, R.NOQ, dict(R.DEFAULT))
  algo, c = draw(R.cfg_specs(common_weight=3))
  if draw(st.integers(0, 7)) == 0:
    c = dict(c, skip=True)
    if c['w'] is not None and draw(st.booleans()):
      # blockwise weights are only reachable with skip_checks (no policy entry)
      c['w'] = [c['w'][0], c['w'][1], 'BLOCKWISE', c['w'][3],
                draw(st.sampled_from([1, 2, 2, 4, 32, 0]))]
  return R.rule(regex, op, algo, c)


@st.composite
def histories(draw):
  n = draw(st.integers(1, 30))
  steps = []
  for _ in range(n):
    k = draw(st.integers(0, 10))
    if k == 10:
      steps.append({'do': 'policy', 'which': draw(st.sampled_from(POLICY_NAMES))})
    elif k <= 6:
      steps.append({'do': 'add', 'rule': draw(rule_specs()), 'enum': draw(st.booleans())})
    elif k <= 8:
      steps.append({'do': 'load', 'rules': draw(st.lists(rule_specs(), min_size=0, max_size=4))})
    else:
      steps.append({'do': 'load_export'})
  return {'steps': steps, 'facade': draw(st.booleans())}


class _Facade:
  """RecipeManager interface over the public Quantizer API."""

  def __init__(self):
    self.q = quantizer_mod.Quantizer(b'not-a-model')

  def add_quantization_config(self, regex, op, cfg, algo):
    return self.q.update_quantization_recipe(regex, op, cfg, algo)

  def get_quantization_configs(self, op, scope):
    return self.q._recipe_manager.get_quantization_configs(op, scope)  # pylint: disable=protected-access

  def get_quantization_recipe(self):
    return self.q.get_quantization_recipe()

  def load_quantization_recipe(self, r):
    return self.q.load_quantization_recipe(r)


def _constructible(r):
  try:
    cfg_obj(r['cfg'])
    return True
  except ValueError:
    return False


def _loadable(r):
  return r['algo'] == R.NOQ or r['cfg']['w'] is not None


def run_history(spec):
  set_policy('default')
  try:
    return _run_history(spec)
  finally:
    set_policy('default')


def _run_history(spec):
  rm = _Facade() if spec.get('facade') else recipe_manager.RecipeManager()
  ref = RefRecipe(supported)
  flat = []
  labels = ['facade' if spec.get('facade') else 'manager']
  for k, s in enumerate(spec['steps']):
    where = 'step %d (%s)' % (k, s['do'])
    if s['do'] == 'policy':
      set_policy(s['which'], via=rm.q if spec.get('facade') else None)
      labels.append('policy:' + s['which'])
    elif s['do'] == 'add':
      r = s['rule']
      if not _constructible(r):
        labels.append('skipped:unconstructible_cfg')
        continue
      acc = apply_add(rm, ref, r['regex'], r['op'], r['algo'], r['cfg'], s['enum'], where)
      flat.append((r['regex'], r['op'], r['algo'], r['cfg'], acc))
      labels.append('add:accepted' if acc else 'add:refused')
    elif s['do'] == 'load':
      rules = [r for r in s['rules'] if _constructible(r) and _loadable(r)]
      # load() = clear + add each; a refused rule aborts the load with
      # ValueError, leaving the prefix loaded (documented "re-validated on load")
      ref.clear()
      expect_fail = None
      for i, r in enumerate(rules):
        cfg = _DEFAULT_CFG if r['algo'] == R.NOQ else cfg_obj(dict(r['cfg']))
        if not ref.add(r['regex'], r['op'], r['algo'], cfg):
          expect_fail = i
          break
        flat.append((r['regex'], r['op'], r['algo'], r['cfg'], True))
      ok, err = core.call(rm.load_quantization_recipe, [R.rule_dict(r) for r in rules])
      if expect_fail is None and not ok:
        raise Violation('load_refused_wrongly', '%r at %s' % (err, where))
      if expect_fail is not None and ok:
        raise Violation('load_accepted_wrongly', where)
      if expect_fail is not None and not isinstance(err, ValueError):
        raise Violation('load_refusal_not_valueerror', '%r at %s' % (err, where))
      labels.append('load:ok' if ok else 'load:refused')
    else:
      exp = rm.get_quantization_recipe()
      if any('weight_tensor_config' not in e['op_config'] and
             str(getattr(e['algorithm_key'], 'value', e['algorithm_key'])) != R.NOQ for e in exp):
        labels.append('skipped:export_not_loadable(C12)')
        continue
      old = ref.export()
      ref.clear()
      expect_fail = False
      for regex, (op, algo, cfg) in old:
        # re-validated on load: under a policy replaced since the rule was
        # added, an exported rule can be refused (the prefix stays loaded)
        if not ref.add(regex, op, algo, _DEFAULT_CFG if algo == R.NOQ else cfg):
          expect_fail = True
          break
      ok, err = core.call(rm.load_quantization_recipe, exp)
      if not ok and not (expect_fail and isinstance(err, ValueError)):
        raise Violation('load_export_raises', '%r at %s' % (err, where))
      if ok and expect_fail:
        raise Violation('load_export_accepted_wrongly', where)
      labels.append('load_export' if ok else 'load_export:refused_under_new_policy')
    compare(rm, ref, where)
  return core.result(_nontrivial(flat), sorted(set(labels)))


def phases(tier):
  k = float(os.environ.get('VERIF_SCALE', '1'))
  big = tier == 'thorough'
  return [
      {'name': 'enum', 'kind': 'enum', 'items': lambda: enum_items(3 if big else 2),
       'run': run_enum},
      {'name': 'histories', 'kind': 'hyp', 'strategy': histories, 'run': run_history,
       'examples': int((40000 if big else 2500) * k)},
  ]
