"""C03 - each op runs in exactly the mode its rule selected; others untouched."""
import os

from vq import core, engine, fb
from vq.core import Violation
from vq.gen import graph as G
from vq.props import c01
from vq.ref import optable, plan, skeleton

META = {
    'level': 'exploration',
    'rule': ('Generated (model, recipe, calibration) cases with emphasis on '
             'mixed recipes (no skip_checks); every operand of every original '
             'operator is compared with the operand class the reference '
             'resolver + mode table predict. Non-trivial = the recipe resolves '
             '>= 2 different modes in one graph, or a tensor has consumers in '
             'different modes; distinct by case hash.'),
    'assumptions': ['operand roles (weight/bias/index/data) come from an op table written from the TFLite op definitions',
                    'the support predicate of the resolver is the library\'s'],
    'low_yield': {'label': 'returned', 'floor': 0.6},
}

TT = fb.TT
INT_OF_BITS = {4: TT.INT4, 8: TT.INT8, 16: TT.INT16}
Q, DQ = fb.OP_CODE['QUANTIZE'], fb.OP_CODE['DEQUANTIZE']


def tname(t):
  return fb.TYPE_NAME.get(t, t)


def check_case(case):
  out = engine.run(case)
  labels = ['recipe:' + (case['recipe'].get('name') or 'rules')]
  if out.stage == 'empty_recipe':
    return core.result(False, labels + ['empty_recipe'])
  if not out.ok:
    return core.result(False, labels + ['raised:%s' % out.stage])
  labels.append('returned')
  return verify_modes(case, out, labels)


def verify_modes(case, out, labels):
  src, res = fb.parse(out.model_bytes), fb.parse(out.qbytes)
  try:
    ms = skeleton.match(src, res)
  except Violation as v:
    # C02's subject; without a skeleton the operands cannot be attributed
    return core.result(False, labels + ['skeleton_mismatch(C02):' + v.tag])
  rp = plan.resolve_model(case['model'], plan.ref_recipe(case, out))
  modes_seen = set()
  mixed_tensor = False
  for si, (m, sgs, sg, og) in enumerate(zip(ms, case['model']['subgraphs'], src['subgraphs'], res['subgraphs'])):
    prod = fb.producers(og)
    cons_modes = {}
    for k, p in enumerate(rp[si]['ops']):
      node = sgs['nodes'][p.node_index]
      sop, oop = sg['ops'][k], og['ops'][m.op_of[k]]
      modes_seen.add(p.mode)
      labels.append('mode:' + p.mode)
      cfg = p.cfg
      abits = cfg.activation_tensor_config.num_bits if cfg.activation_tensor_config else None
      wbits = cfg.weight_tensor_config.num_bits if cfg.weight_tensor_config else None
      where = 'sg%d op%d %s mode=%s' % (si, k, p.op, p.mode)
      for pos, (ts, ta) in enumerate(zip(sop['inputs'], oop['inputs'])):
        if ts < 0:
          continue
        s_t, a_t = sg['tensors'][ts], og['tensors'][ta]
        is_const = fb.is_const(src, s_t)
        cons_modes.setdefault(ts, set()).add(p.mode)
        role = optable.role(p.op, pos, is_const)
        w = '%s input %d (%s, %s)' % (where, pos, role, 'const' if is_const else 'runtime')
        if s_t['type'] != TT.FLOAT32 or role == 'index':
          _same(src, res, s_t, a_t, ts, ta, is_const, w + ' non-float/index operand')
          continue
        if p.mode in ('none', 'invalid'):
          _same(src, res, s_t, a_t, ts, ta, is_const, w)
        elif p.mode in ('wo', 'fp16'):
          if role == 'weight' and is_const:
            if a_t['type'] != TT.FLOAT32:
              raise Violation('wo_weight_not_float', w + ' is ' + tname(a_t['type']))
            pr = prod.get(ta, [])
            if len(pr) != 1 or og['ops'][pr[0]]['code'] != DQ:
              raise Violation('wo_weight_without_dequantize', w)
            c_t = og['tensors'][og['ops'][pr[0]]['inputs'][0]]
            want = TT.FLOAT16 if p.mode == 'fp16' else INT_OF_BITS[wbits]
            if c_t['type'] != want or not fb.is_const(res, c_t):
              raise Violation('wo_weight_constant_type', w + ' DEQUANTIZE reads %s, want constant %s' % (tname(c_t['type']), tname(want)))
          else:
            _same(src, res, s_t, a_t, ts, ta, is_const, w)
        elif p.mode == 'drq':
          if role == 'weight' and is_const:
            if a_t['type'] != INT_OF_BITS[wbits] or not fb.is_const(res, a_t):
              raise Violation('drq_weight_type', w + ' is %s, want constant %s' % (tname(a_t['type']), tname(INT_OF_BITS[wbits])))
          else:
            _same(src, res, s_t, a_t, ts, ta, is_const, w)
        elif p.mode == 'srq':
          if role == 'bias':
            want = [TT.INT64 if abits == 16 else TT.INT32]
          elif role == 'weight':
            want = [INT_OF_BITS[wbits]]
            if p.op == 'BATCH_MATMUL' and pos == 0:
              want.append(INT_OF_BITS[abits])   # constant lhs: no claim which width
          else:
            want = [INT_OF_BITS[abits]]
          if a_t['type'] not in want:
            raise Violation('srq_operand_type', w + ' is %s, want %s' % (tname(a_t['type']), [tname(x) for x in want]))
      for pos, (ts, ta) in enumerate(zip(sop['outputs'], oop['outputs'])):
        s_t, a_t = sg['tensors'][ts], og['tensors'][ta]
        w = '%s output %d' % (where, pos)
        if p.mode == 'srq' and s_t['type'] == TT.FLOAT32:
          if a_t['type'] != INT_OF_BITS[abits]:
            raise Violation('srq_output_type', w + ' is %s, want %s' % (tname(a_t['type']), tname(INT_OF_BITS[abits])))
        elif a_t['type'] != s_t['type']:
          raise Violation('output_type_changed', w + ' %s -> %s' % (tname(s_t['type']), tname(a_t['type'])))
    if any(len(v - {'invalid'}) > 1 for v in cons_modes.values()):
      mixed_tensor = True
    # graph inputs/outputs under INPUT/OUTPUT rules
    for kind, key in (('inputs', 'input'), ('outputs', 'output')):
      algo, cfg, mode = rp[si][key]
      if mode != 'srq':
        continue
      ab = cfg.activation_tensor_config.num_bits
      for pos, t in enumerate(og[kind]):
        if sg['tensors'][sg[kind][pos]]['type'] != TT.FLOAT32:
          continue
        if og['tensors'][t]['type'] != INT_OF_BITS[ab]:
          raise Violation('io_type_under_rule', 'sg%d %s[%d] is %s, rule selects %d-bit' % (si, kind, pos, tname(og['tensors'][t]['type']), ab))
    # inserted ops convert between sensible dtypes
    for oi in m.inserted:
      o = og['ops'][oi]
      ti, to = og['tensors'][o['inputs'][0]], og['tensors'][o['outputs'][0]]
      if o['code'] == Q:
        if to['type'] not in fb.INT_TYPES or to['scale'] is None:
          raise Violation('inserted_quantize_output', 'sg%d op%d output %s' % (si, oi, tname(to['type'])))
        if ti['type'] != TT.FLOAT32 and not (ti['type'] in fb.INT_TYPES and ti['scale'] is not None):
          raise Violation('inserted_quantize_input', 'sg%d op%d input %s' % (si, oi, tname(ti['type'])))
      else:
        if to['type'] != TT.FLOAT32:
          raise Violation('inserted_dequantize_output', 'sg%d op%d output %s' % (si, oi, tname(to['type'])))
        if not (ti['type'] == TT.FLOAT16 or (ti['type'] in fb.INT_TYPES and ti['scale'] is not None)):
          raise Violation('inserted_dequantize_input', 'sg%d op%d input %s' % (si, oi, tname(ti['type'])))
  real = modes_seen - {'invalid'}
  nt = len(real) >= 2 or mixed_tensor
  return core.result(nt, sorted(set(labels)))


def _same(src, res, s_t, a_t, ts, ta, is_const, where):
  """Operand must be the original tensor, untouched."""
  if a_t['type'] != s_t['type']:
    raise Violation('untouched_operand_type_changed', '%s: %s -> %s' % (where, tname(s_t['type']), tname(a_t['type'])))
  if a_t['scale'] is not None:
    raise Violation('untouched_operand_has_quant_params', where)
  if is_const:
    if ta != ts:
      raise Violation('untouched_constant_rewired', where)
    a = fb.buffer_bytes(src, s_t['buffer'])
    b = fb.buffer_bytes(res, a_t['buffer'])
    if a != b:
      raise Violation('untouched_constant_bytes_changed', where)


def phases(tier):
  k = float(os.environ.get('VERIF_SCALE', '1'))
  big = tier == 'thorough'
  kw = c01.model_kw(tier)
  kw['collide_names'] = False
  kw['ops'] = G.ALL_OPS + ['GATE']   # a BOOL tensor, also through RESHAPE
  return [
      {'name': 'pipeline', 'kind': 'hyp',
       'strategy': lambda: engine.cases(model_kw=kw, allow_skip=False),
       'run': check_case, 'examples': int((60000 if big else 5000) * k)},
  ]
