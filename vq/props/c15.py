"""C15 - shared constants are quantized consistently or the request is rejected."""
import os

import numpy as np
from hypothesis import strategies as st

from vq import core, engine, fb
from vq.core import Violation
from vq.gen import graph as G
from vq.gen import recipes as R
from vq.props import c03
from vq.ref import plan, skeleton

META = {
    'level': 'exploration',
    'rule': ('Generated models built around sharing (one constant tensor with '
             '2..k consumers, several tensors on one buffer inside a subgraph '
             'or across subgraphs, converter-style de-duplication) x recipes '
             'assigning equal, different or no quantization to the sharers. '
             'Non-trivial = quantize() returned and >= 2 sharers of one '
             'constant were rewritten, or sharers resolve to different modes; '
             'distinct by case hash.'),
    'assumptions': ['rejection by exception is an allowed outcome (counted per bucket)'],
}

CONST_OPS = ['FULLY_CONNECTED', 'CONV_2D', 'DEPTHWISE_CONV_2D', 'BATCH_MATMUL',
             'EMBEDDING_LOOKUP', 'ADD', 'SUB', 'MUL', 'CONCATENATION', 'RESHAPE',
             'TANH', 'RELU', 'MAXIMUM', 'MAXIMUM']   # MAXIMUM: an op the quantizer
                                                     # does not know, with a constant operand


BW_OPS = ['FULLY_CONNECTED'] * 4 + ['EMBEDDING_LOOKUP', 'BATCH_MATMUL', 'MAXIMUM', 'ADD', 'TANH']


@st.composite
def cases(draw, tier):
  # a sub-population the blockwise (emulated sub-channel) transformation accepts:
  # rank-3 activations, bias-free FULLY_CONNECTED with NONE/RELU
  bw = draw(st.integers(0, 5)) == 0
  mspec = draw(G.model_specs(max_nodes=8 if tier == 'thorough' else 6,
                             min_nodes=2, max_subgraphs=2,
                             ops=BW_OPS if bw else CONST_OPS,
                             **({'force_fam': 3, 'fc_plain': True} if bw else {}),
                             reuse_const=True, share_buffers=True, dedup=True, same_name_sharers=True, const_outputs=True,
                             dim_choices=[2, 4], reuse_odds=1, share_odds=1,
                             # incl. degenerate contents (all-zero / constant
                             # tied weights are what initialisers produce)
                             const_styles=G.CONST_STYLES_SANE + ['zeros', 'zeros', 'constant', 'lattice']))
  names = engine.op_out_names(mspec)
  groups = _sharer_groups(mspec)
  if groups and (bw or draw(st.integers(0, 2))):
    # give the consumers of one shared constant individually drawn treatments
    import re as _re
    grp = draw(st.sampled_from(groups))
    rules = []
    fc_outs = [o for o in grp if _is_fc_out(mspec, o)]
    # blockwise population: one FULLY_CONNECTED sharer gets blockwise weights,
    # the others mostly stay float (no rule / explicit opt-out)
    the_bw = draw(st.sampled_from(fc_outs)) if bw and fc_outs and draw(st.integers(0, 3)) else None
    for out_name in grp:
      is_fc = out_name in fc_outs
      if out_name == the_bw:
        algo, c = BLOCKWISE
      elif the_bw is not None and draw(st.integers(0, 2)):
        if draw(st.booleans()):
          continue
        algo, c = R.NOQ, R.DEFAULT
      else:
        algo, c = draw(st.sampled_from(R.COMMON_CFGS + [(R.NOQ, R.DEFAULT)] * 3 +
                                       ([BLOCKWISE] * 6 if is_fc else [])))
      rules.append(R.rule(_re.escape(out_name), '*', algo, dict(c)))
    if not rules:
      rules.append(R.rule(_re.escape(grp[0]), '*', R.NOQ, dict(R.DEFAULT)))
    if draw(st.booleans()) and (the_bw is None or draw(st.integers(0, 2)) == 0):
      algo, c = draw(st.sampled_from(R.COMMON_CFGS))
      rules.insert(0, R.rule('.*', '*', algo, dict(c)))
    recipe = {'kind': 'rules', 'rules': rules}
  elif draw(st.integers(0, 2)) == 0:
    recipe = {'kind': 'shipped', 'name': draw(st.sampled_from(engine.SHIPPED_NAMES))}
  else:
    recipe = {'kind': 'rules', 'rules': draw(R.rules_for(
        names, engine.ops_present(mspec), max_rules=4, cfg_pool=R.COMMON_CFGS,
        allow_skip=False))}
  return {'model': mspec, 'recipe': recipe, 'calib_seeds': [draw(st.integers(0, 99))],
          'input_seed': 0}


_sharer_groups = G.sharer_groups


def _is_fc_out(mspec, out_name):
  return any(n['op'] == 'FULLY_CONNECTED' and sg['tensors'][n['out'][0]]['name'] == out_name
             for sg in mspec['subgraphs'] for n in sg['nodes'])


# blockwise (emulated sub-channel) weights: reachable with skip_checks only
BLOCKWISE = (R.MINMAX, R.cfg(w=[8, True, 'BLOCKWISE', 'INT', 2], cp='FLOAT', ed=True, skip=True))


def check_case(case):
  out = engine.run(case)
  feats = G.features(case['model'])
  sharing = feats & {'multi_consumer_const', 'shared_buffer', 'shared_buffer_cross_sg', 'dedup'}
  labels = ['sharing:' + f for f in sharing] or ['no_sharing']
  if out.stage == 'empty_recipe':
    return core.result(False, labels + ['empty_recipe'])
  if not out.ok:
    return core.result(False, labels + ['rejected:' + core.exc_bucket(out.exc)[:60]])
  labels.append('returned')
  if any(((r.get('cfg') or {}).get('w') or [0, 0, ''])[2] == 'BLOCKWISE'
         for r in case['recipe'].get('rules', [])):
    labels.append('returned_with_blockwise_rule')
  src, res = fb.parse(out.model_bytes), fb.parse(out.qbytes)
  # --- every buffer: all referencing tensors agree with the stored bytes
  users = {}
  for si, og in enumerate(res['subgraphs']):
    for ti, t in enumerate(og['tensors']):
      if fb.is_const(res, t):
        users.setdefault(t['buffer'], []).append((si, ti, t))
  rewritten_sharers = 0
  for b, ts in users.items():
    data = fb.buffer_bytes(res, b)
    first = ts[0][2]
    for si, ti, t in ts:
      want = fb.expected_nbytes(t['type'], t['shape'])
      if len(data) != want:
        raise Violation('shared_buffer_length_mismatch',
                        'buffer %d has %d bytes; sg%d t%d %s is %s%s (%d bytes)' % (
                            b, len(data), si, ti, t['name'], fb.TYPE_NAME.get(t['type']), t['shape'], want))
      if (t['type'], t['scale'], t['zp']) != (first['type'], first['scale'], first['zp']) or (
          t['scale'] is not None and len(t['scale']) > 1 and t['qdim'] != first['qdim']):
        raise Violation('shared_buffer_parameters_differ',
                        'buffer %d: %s is %s scale=%s, %s is %s scale=%s' % (
                            b, first['name'], fb.TYPE_NAME.get(first['type']), (first['scale'] or [])[:2],
                            t['name'], fb.TYPE_NAME.get(t['type']), (t['scale'] or [])[:2]))
    if len(ts) >= 2 and first['scale'] is not None:
      rewritten_sharers += 1
  # (an op replaced by an emulation sub-graph, as blockwise does, ends the check here)
  try:
    ms = skeleton.match(src, res)
  except Violation as v:
    return core.result(False, labels + ['skeleton_mismatch(C02):' + v.tag])
  # --- every original constant still denotes (within one step) its values
  for si, (m, sg, og) in enumerate(zip(ms, src['subgraphs'], res['subgraphs'])):
    for ti in range(m.n_src_tensors):
      s_t, a_t = sg['tensors'][ti], og['tensors'][ti]
      if not fb.is_const(src, s_t):
        continue
      if not fb.is_const(res, a_t):
        raise Violation('constant_lost_its_data', 'sg%d t%d %s' % (si, ti, s_t['name']))
      orig = fb.tensor_constant(src, si, ti)
      now = fb.tensor_real_values(res, si, ti)
      if s_t['type'] != fb.TT.FLOAT32:
        if not np.array_equal(orig, fb.tensor_constant(res, si, ti)):
          raise Violation('non_float_constant_changed', 'sg%d t%d %s' % (si, ti, s_t['name']))
        continue
      if a_t['scale'] is None and a_t['type'] == fb.TT.FLOAT32:
        if not np.array_equal(orig, now):
          raise Violation('float_constant_changed', 'sg%d t%d %s' % (si, ti, s_t['name']))
        continue
      if a_t['type'] == fb.TT.FLOAT16:
        step = np.abs(orig.astype(np.float64)) * 2e-3 + 1e-7
      elif a_t['type'] in (fb.TT.INT32, fb.TT.INT64):
        continue  # biases: C05
      else:
        sc = np.asarray(a_t['scale'], np.float64)
        step = sc if sc.size == 1 else sc.reshape([-1 if d == a_t['qdim'] else 1 for d in range(len(a_t['shape']))])
      err = np.abs(np.asarray(now, np.float64) - orig.astype(np.float64))
      if np.any(err > step * (1 + 1e-5) + np.abs(orig) * 4e-7 + 1e-30):
        i = tuple(np.argwhere(err > step * (1 + 1e-5) + np.abs(orig) * 4e-7 + 1e-30)[0])
        raise Violation('consumer_observes_value_outside_one_step',
                        'sg%d t%d %s element %s: original %r now %r' % (si, ti, s_t['name'], i, orig[i], np.asarray(now)[i]))
  # --- each consumer's operand class matches what it reads (C03 oracle)
  r = c03.verify_modes(case, out, labels)
  rp = plan.resolve_model(case['model'], plan.ref_recipe(case, out))
  modes_per_const = {}
  for si, sgs in enumerate(case['model']['subgraphs']):
    for p in rp[si]['ops']:
      for t in sgs['nodes'][p.node_index]['in']:
        if t >= 0 and sgs['tensors'][t]['kind'] == 'const' and sgs['tensors'][t]['dtype'] == 'f32':
          key = (si, t) if sgs['tensors'][t].get('share') is None else tuple(sgs['tensors'][t]['share'])
          modes_per_const.setdefault(key, []).append(p.mode)
  mixed = any(len(v) >= 2 and len(set(v)) >= 2 for v in modes_per_const.values())
  r['nontrivial'] = bool(sharing) and (rewritten_sharers > 0 or mixed or any(
      len(v) >= 2 and v[0] != 'none' for v in modes_per_const.values()))
  return r


def phases(tier):
  k = float(os.environ.get('VERIF_SCALE', '1'))
  big = tier == 'thorough'
  return [
      {'name': 'sharing', 'kind': 'hyp', 'strategy': lambda: cases(tier),
       'run': check_case, 'examples': int((120000 if big else 4000) * k)},
  ]
