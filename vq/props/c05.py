"""C05 - stored quantized constants decode to within one step of the float originals."""
import os

import numpy as np
from hypothesis import strategies as st

from vq import core, engine, fb
from vq.core import Violation
from vq.gen import graph as G
from vq.gen import recipes as R
from vq.ref import optable, plan, skeleton

META = {
    'level': 'exploration',
    'rule': ('Generated graphs of 1..4 (quick) / 6 (thorough) nodes over the '
             'constant-carrying ops (FC, CONV, DEPTHWISE, TRANSPOSE_CONV, '
             'BATCH_MATMUL, EMBEDDING_LOOKUP, elementwise/concat with constant '
             'operands), constants with special data shapes (constant, '
             'one-sided, outliers, zeros, tiny, huge, rounding-tie grids), all '
             'accepted weight configs (4/8 bit, sym/asym, per-tensor/'
             'per-channel), static configs, fp16. Every rewritten constant is '
             'decoded by an independent decoder. Non-trivial = a rewritten '
             'constant with > 1 element and (odd element count under 4 bit, or '
             'per-channel with >= 2 channels); distinct by case hash.'),
    'assumptions': ['tolerance: half a step (symmetric) / one step (asymmetric) plus 1e-5 relative and float32 rounding of x/scale'],
    'low_yield': {'label': 'returned', 'floor': 0.6},
}

TT = fb.TT
CONST_OPS = ['FULLY_CONNECTED', 'CONV_2D', 'DEPTHWISE_CONV_2D', 'TRANSPOSE_CONV',
             'BATCH_MATMUL', 'EMBEDDING_LOOKUP', 'ADD', 'SUB', 'MUL',
             'CONCATENATION', 'RESHAPE', 'TANH']


@st.composite
def cases(draw, tier):
  mspec = draw(G.model_specs(max_nodes=6 if tier == 'thorough' else 4,
                             ops=CONST_OPS, wild_consts=True, reuse_const=True,
                             max_subgraphs=1))
  names = engine.op_out_names(mspec)
  if draw(st.integers(0, 2)):
    algo, c = draw(st.sampled_from(R.COMMON_CFGS))
    rules = [R.rule('.*', '*', algo, dict(c))]
  else:
    rules = draw(R.rules_for(names, engine.ops_present(mspec), max_rules=3,
                             cfg_pool=R.COMMON_CFGS, allow_skip=False, allow_noq=False))
  return {'model': mspec, 'recipe': {'kind': 'rules', 'rules': rules},
          'calib_seeds': [draw(st.integers(0, 99))], 'input_seed': 0}


@st.composite
def big_cases(draw):
  """One operator with a constant of 1..4 million elements (an embedding table, a
  wide FULLY_CONNECTED): sizes beyond anything the repository's models have,
  where chunked / blocked processing of large tensors would show."""
  width = draw(st.sampled_from([24, 32, 48, 64, 96, 128, 200]))
  rows = draw(st.integers((2 ** 20) // width + 1, (2 ** 22) // width))
  data = {'seed': draw(st.integers(0, 2 ** 16)), 'style': draw(st.sampled_from(['normal', 'outlier', 'positive'])),
          'mag': 1.0}
  if draw(st.booleans()):
    tensors = [{'name': 'ids', 'shape': [3], 'dtype': 'i32', 'kind': 'in', 'dom': [0, rows], 'mag': 1.0, 'rng': None},
               {'name': 'emb/table', 'shape': [rows, width], 'dtype': 'f32', 'kind': 'const', 'data': data},
               {'name': 'emb/lookup;', 'shape': [3, width], 'dtype': 'f32', 'kind': 'act', 'rng': None}]
    node = {'op': 'EMBEDDING_LOOKUP', 'in': [0, 1], 'out': [2], 'opts': {}}
  else:
    tensors = [{'name': 'x', 'shape': [1, width], 'dtype': 'f32', 'kind': 'in', 'dom': None, 'mag': 1.0, 'rng': None},
               {'name': 'dense/kernel', 'shape': [rows, width], 'dtype': 'f32', 'kind': 'const',
                'data': dict(data, mag=round(1.0 / width ** 0.5, 4))},
               {'name': 'dense/MatMul;', 'shape': [1, rows], 'dtype': 'f32', 'kind': 'act', 'rng': None}]
    node = {'op': 'FULLY_CONNECTED', 'in': [0, 1, -1], 'out': [2],
            'opts': {'fusedActivationFunction': 0, 'weightsFormat': 0, 'keepNumDims': False,
                     'asymmetricQuantizeInputs': False}}
  mspec = {'subgraphs': [{'name': 'main', 'sig': 'serving_default', 'argprefix': 'a', 'tensors': tensors,
                          'nodes': [node], 'order': [0], 'inputs': [0], 'outputs': [2]}], 'dedup': False}
  algo, c = draw(st.sampled_from(R.FLOAT_COMPUTE_CFGS + [(R.MINMAX, R.A8W8), (R.MINMAX, R.A8W8_T)]))
  return {'model': mspec, 'recipe': {'kind': 'rules', 'rules': [R.rule('.*', '*', algo, dict(c))]},
          'calib_seeds': [0], 'input_seed': 0, 'big': True}


def check_case(case):
  out = engine.run(case)
  labels = []
  if out.stage == 'empty_recipe':
    return core.result(False, ['empty_recipe'])
  if not out.ok:
    return core.result(False, ['raised:%s:%s' % (out.stage, core.exc_bucket(out.exc))])
  labels.append('returned')
  src, res = fb.parse(out.model_bytes), fb.parse(out.qbytes)
  try:
    ms = skeleton.match(src, res)
  except Violation as v:
    return core.result(False, labels + ['skeleton_mismatch(C02):' + v.tag])
  rp = plan.resolve_model(case['model'], plan.ref_recipe(case, out))
  nt = False
  for si, (m, sgs, sg, og) in enumerate(zip(ms, case['model']['subgraphs'], src['subgraphs'], res['subgraphs'])):
    # which consumers (op plan, position) does each source tensor have
    uses = {}
    for k, p in enumerate(rp[si]['ops']):
      for pos, t in enumerate(sg['ops'][k]['inputs']):
        if t >= 0:
          uses.setdefault(t, []).append((p, pos))
    for ti in range(m.n_src_tensors):
      s_t, a_t = sg['tensors'][ti], og['tensors'][ti]
      if not fb.is_const(src, s_t) or s_t['type'] != TT.FLOAT32:
        continue
      if a_t['type'] == s_t['type'] and a_t['scale'] is None:
        continue  # not rewritten
      orig = fb.tensor_constant(src, si, ti).astype(np.float64)
      data = fb.buffer_bytes(res, a_t['buffer'])
      where = 'sg%d t%d %s %s%s' % (si, ti, a_t['name'], fb.TYPE_NAME.get(a_t['type']), a_t['shape'])
      want_len = fb.expected_nbytes(a_t['type'], a_t['shape'])
      if data is None or len(data) != want_len:
        raise Violation('constant_byte_length', '%s: %s bytes, dtype/shape imply %d' % (
            where, None if data is None else len(data), want_len))
      stored = fb.decode(a_t['type'], a_t['shape'], data)
      labels.append('rewritten:' + fb.TYPE_NAME.get(a_t['type']))
      if a_t['type'] == TT.FLOAT16:
        want = orig.astype(np.float32).astype(np.float16)
        if stored.tobytes() != want.tobytes():
          raise Violation('fp16_constant_not_rne', where)
        continue
      if a_t['type'] not in fb.INT_TYPES or a_t['scale'] is None:
        raise Violation('rewritten_constant_untyped', where)
      scale = np.asarray(a_t['scale'], np.float64)
      zp = np.asarray(a_t['zp'] if a_t['zp'] is not None else [0] * scale.size, np.int64)
      rank = len(a_t['shape'] or [])
      if a_t['qdim'] < 0 or (rank and a_t['qdim'] >= rank):
        raise Violation('constant_quantized_dimension_out_of_range', '%s qdim=%d rank=%d' % (where, a_t['qdim'], rank))
      if scale.size != zp.size or scale.size not in (1, (a_t['shape'] or [1])[a_t['qdim']] if a_t['shape'] else 1):
        raise Violation('constant_param_length', '%s scale=%d zp=%d qdim=%d' % (where, scale.size, zp.size, a_t['qdim']))
      if not np.all(np.isfinite(scale)) or np.any(scale <= 0):
        raise Violation('constant_scale_invalid', where)
      lo, hi = fb.INT_RANGE[a_t['type']]
      if stored.size and (stored.min() < lo or stored.max() > hi):
        raise Violation('constant_code_out_of_range', where)
      deq = fb.dequantize(stored, scale, zp, a_t['qdim'])
      roles = [(optable.role(p.op, pos, True), p) for p, pos in uses.get(ti, [])]
      is_bias = any(r == 'bias' for r, _ in roles) and a_t['type'] in (TT.INT32, TT.INT64)
      step = scale if scale.size == 1 else scale.reshape(
          [-1 if d == a_t['qdim'] else 1 for d in range(len(a_t['shape']))])
      err = np.abs(deq - orig)
      if is_bias:
        exact = orig / step
        unsat = np.abs(exact) < hi * 0.999
        tol = 0.5 + 1e-3 + np.abs(exact) * 1e-6
        if np.any(unsat & (np.abs(stored.astype(np.float64) - exact) > tol)):
          i = tuple(np.argwhere(unsat & (np.abs(stored - exact) > tol))[0])
          raise Violation('bias_not_round_of_bias_over_scale',
                          '%s element %s: stored %d, bias/scale=%r' % (where, i, stored[i], exact[i]))
        labels.append('bias')
        continue
      symmetric = bool(np.all(zp == 0)) and all(_cfg_symmetric(r, p) for r, p in roles)
      k = 0.5 if symmetric else 1.0
      tol = step * k * (1 + 1e-5) + np.abs(orig) * 4e-7 + 1e-30
      if np.any(err > tol):
        i = tuple(np.argwhere(err > tol)[0])
        raise Violation('constant_decodes_outside_step',
                        '%s element %s: original %r decodes to %r (code %d), step %r, allowed %.3g steps' % (
                            where, i, orig[i], deq[i], stored[i], np.broadcast_to(step, orig.shape)[i], k))
      if orig.size > 1 and ((a_t['type'] == TT.INT4 and orig.size % 2 == 1) or scale.size >= 2):
        nt = True
      labels.append('sym' if symmetric else 'asym')
      labels.append('perchannel' if scale.size > 1 else 'pertensor')
  return core.result(nt, sorted(set(labels)))


def _cfg_symmetric(role, p):
  cfg = p.cfg
  if role == 'weight' and cfg.weight_tensor_config is not None:
    return bool(cfg.weight_tensor_config.symmetric)
  if cfg.activation_tensor_config is not None:
    return bool(cfg.activation_tensor_config.symmetric)
  if cfg.weight_tensor_config is not None:
    return bool(cfg.weight_tensor_config.symmetric)
  return False


def phases(tier):
  k = float(os.environ.get('VERIF_SCALE', '1'))
  big = tier == 'thorough'
  return [
      {'name': 'constants', 'kind': 'hyp', 'strategy': lambda: cases(tier),
       'run': check_case, 'examples': int((240000 if big else 4000) * k)},
      {'name': 'big_constants', 'kind': 'hyp', 'strategy': big_cases,
       'run': check_case, 'examples': int((640 if big else 64) * k)},
  ]
