"""C16 - large-model (external buffer) serialization equals the in-place form."""
import os

import numpy as np
from hypothesis import strategies as st

from vq import core, engine, fb, interp
from vq.core import Violation
from vq.gen import graph as G
from vq.gen import recipes as R

META = {
    'level': 'exploration',
    'rule': ('Generated models x recipes, each quantized twice through the '
             'public API: once on the ordinary path and once with the guarded '
             'hook lowering the large-model threshold to -1 (every model takes '
             'the external-buffer path); in a quarter of the cases the '
             'Quantizer object has already quantized with another recipe, in a '
             'quarter the float input model is itself in external-buffer form. '
             'Both byte strings are raw-parsed. '
             'Non-trivial = >= 2 non-empty buffers of different sizes, at least '
             'one whose size is not a multiple of 16; distinct by case hash.'),
    'assumptions': ['hook AI_EDGE_QUANTIZER_VERIF_LARGE_MODEL_THRESHOLD only changes which serializer is chosen',
                    '"16-byte aligned" is read as: offsets are multiples of 16 and sizes are the exact data lengths'],
    'low_yield': {'label': 'returned', 'floor': 0.6},
}
ENV = 'AI_EDGE_QUANTIZER_VERIF_LARGE_MODEL_THRESHOLD'
PRIORS = ['default_af32w4float_recipe', 'default_af32w8float_recipe', 'dynamic_wi8_afp32_recipe']


@st.composite
def cases(draw, tier):
  mspec = draw(G.model_specs(max_nodes=10 if tier == 'thorough' else 6,
                             max_subgraphs=2, reuse_const=True, share_buffers=True))
  names = engine.op_out_names(mspec)
  if draw(st.integers(0, 2)) == 0:
    recipe = {'kind': 'shipped', 'name': draw(st.sampled_from(engine.SHIPPED_NAMES))}
  else:
    recipe = {'kind': 'rules', 'rules': draw(R.rules_for(
        names, engine.ops_present(mspec), max_rules=3, cfg_pool=R.COMMON_CFGS,
        allow_skip=False))}
  case = {'model': mspec, 'recipe': recipe, 'calib_seeds': [draw(st.integers(0, 99))],
          'input_seed': draw(st.integers(0, 99))}
  if draw(st.integers(0, 3)) == 0:
    # the Quantizer object was already used once with another recipe
    case['prior'] = draw(st.sampled_from(PRIORS))
  if draw(st.integers(0, 5)) == 0:
    # zero-element constants: buffers with an empty data vector
    mspec['empty_consts'] = draw(st.integers(1, 3))
  if draw(st.integers(0, 3)) == 0:
    # the float model itself stores its constants after the flatbuffer (the form
    # every > 2 GB input has)
    case['external_input'] = True
  return case


def _strip(model):
  m = dict(model)
  m = {k: v for k, v in m.items() if k not in ('buffers', 'nbytes')}
  return m


def check_case(case):
  old = os.environ.pop(ENV, None)
  try:
    small = engine.run(case)
    os.environ[ENV] = '-1'
    large = engine.run(case)
  finally:
    os.environ.pop(ENV, None)
    if old is not None:
      os.environ[ENV] = old
  if small.stage == 'empty_recipe':
    return core.result(False, ['empty_recipe'])
  if small.ok != large.ok:
    raise Violation('one_path_raises', 'small: %r large: %r' % (small.exc, large.exc))
  if not small.ok:
    return core.result(False, ['raised:' + str(small.stage)])
  labels = (['returned'] + (['quantizer_used_before'] if case.get('prior') else []) +
            (['input_model_external_form'] if case.get('external_input') else []) +
            (['zero_length_constants'] if case['model'].get('empty_consts') else []))
  a, b = fb.parse(small.qbytes), fb.parse(large.qbytes)
  raw = large.qbytes
  if core.jdump(_strip(a)) != core.jdump(_strip(b)):
    for k in _strip(a):
      if core.jdump(a[k]) != core.jdump(b[k]):
        raise Violation('field_differs', 'top-level field %r differs between the two serializations' % k)
  if len(a['buffers']) != len(b['buffers']):
    raise Violation('buffer_count_differs', '%d vs %d' % (len(a['buffers']), len(b['buffers'])))
  ranges = []
  sizes = []
  for i, (x, y) in enumerate(zip(a['buffers'], b['buffers'])):
    if not x['data']:
      if y['data'] or y['offset'] > 1 or y['size'] > 1:
        raise Violation('empty_buffer_got_data', 'buffer %d: %r' % (i, {k: y[k] for k in ('offset', 'size')}))
      continue
    sizes.append(len(x['data']))
    if y['data']:
      raise Violation('large_form_embeds_data', 'buffer %d still has %d embedded bytes' % (i, len(y['data'])))
    off, size = y['offset'], y['size']
    if off % 16:
      raise Violation('offset_not_16_aligned', 'buffer %d offset %d' % (i, off))
    if off + size > len(raw) or off <= 1:
      raise Violation('buffer_out_of_bounds', 'buffer %d offset %d size %d file %d' % (i, off, size, len(raw)))
    if raw[off:off + size] != x['data']:
      raise Violation('external_bytes_differ', 'buffer %d (offset %d size %d, ordinary form has %d bytes)' % (i, off, size, len(x['data'])))
    ranges.append((off, off + size, i))
  ranges.sort()
  for (s0, e0, i0), (s1, e1, i1) in zip(ranges, ranges[1:]):
    if s1 < e0:
      raise Violation('buffers_overlap', 'buffer %d [%d,%d) and %d [%d,%d)' % (i0, s0, e0, i1, s1, e1))
  if ranges:
    # the flatbuffer proper must be self-contained before the first external byte
    first = ranges[0][0]
    try:
      prefix = fb.parse(raw[:first])
    except Exception as e:  # pylint: disable=broad-except
      raise Violation('external_data_inside_flatbuffer', 'prefix of %d bytes does not parse: %r' % (first, e))
    if core.jdump(_strip(prefix)) != core.jdump(_strip(b)):
      raise Violation('external_data_inside_flatbuffer', 'prefix parses to a different model')
    labels.append('external_buffers=%d' % min(len(ranges), 6))
  # both load and compute identical outputs
  from vq import kfpred as _kp
  if engine.must_not_execute(case, small.qbytes):
    # a recorded runtime-UB finding: not executed in the worker (C06/C13 own it)
    nt0 = len(set(sizes)) >= 2 and any(sz % 16 for sz in sizes)
    return core.result(nt0, labels + ['execution_excluded:runtime_ub_finding'])
  try:
    it_a = interp.make(small.qbytes)
  except Exception as e:  # C01's subject
    return core.result(False, labels + ['interpreter_refuses_ordinary(C01)'])
  try:
    it_b = interp.make(large.qbytes)
  except Exception as e:  # pylint: disable=broad-except
    raise Violation('large_form_not_loadable', core.norm_msg(e, 200))
  for si, sg in enumerate(case['model']['subgraphs']):
    ins = G.make_inputs(case['model'], si, case['input_seed'])
    try:
      ra = it_a.get_signature_runner(sg['sig'])
      det = ra.get_input_details()
      qi = {k: engine.quantize_like_tensor(v, det[k]) for k, v in ins.items()}
      oa = ra(**qi)
    except Exception:  # pylint: disable=broad-except
      return core.result(False, labels + ['interpreter_refuses_ordinary(C01)'])
    try:
      ob = it_b.get_signature_runner(sg['sig'])(**qi)
    except Exception as e:  # pylint: disable=broad-except
      raise Violation('large_form_not_invokable', core.norm_msg(e, 200))
    for k in oa:
      if not np.array_equal(oa[k], ob[k], equal_nan=True):
        raise Violation('outputs_differ', 'sg%d output %s' % (si, k))
  nt = len(set(sizes)) >= 2 and any(s % 16 for s in sizes)
  return core.result(nt, labels)


from vq import kfpred
kf_dw_drq_tensorwise = kfpred.dw_drq_tensorwise


def phases(tier):
  k = float(os.environ.get('VERIF_SCALE', '1'))
  big = tier == 'thorough'
  return [
      {'name': 'serialize', 'kind': 'hyp', 'strategy': lambda: cases(tier),
       'run': check_case, 'examples': int((100000 if big else 2000) * k)},
  ]
