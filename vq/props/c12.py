"""C12 - a saved recipe reloads to the same rules and reproduces the same model."""
import json
import os
import shutil
import tempfile

from hypothesis import strategies as st

from ai_edge_quantizer import qtyping
from ai_edge_quantizer import quantizer as quantizer_mod

from vq import core, engine
from vq.core import Violation
from vq.gen import graph as G
from vq.gen import recipes as R
from vq.props import c11

META = {
    'level': 'exploration',
    'rule': ('Recipes reachable by generated update/load sequences (all '
             'algorithms incl. no_quantize and float casting, skip_checks, enum- '
             'or string-valued arguments, default config under "*") x a small '
             'generated model with statistics; plus every file under recipes/. '
             'Non-trivial = the reached recipe has >= 2 rules or a non-default '
             'field (skip_checks, explicit_dequantize, asymmetric, 4/16 bit, '
             'no_quantize with a config); distinct by case hash.'),
    'assumptions': ['"equal recipe" is compared on the JSON level (what save() writes)'],
}


USER_ALGO = 'vq_user_min_max'


def register_user_algorithm():
  """A user-registered algorithm (the public extension API): the min/max kernels
  under another key. Recipes naming it are as reachable as any other."""
  from ai_edge_quantizer import algorithm_manager as am
  from ai_edge_quantizer import default_policy
  from ai_edge_quantizer.algorithms.uniform_quantize import naive_min_max_quantize as mm
  if am.is_algorithm_registered(USER_ALGO):
    return
  am.register_op_quant_config_validation_func(USER_ALGO, mm.check_op_quantization_config)
  am.register_config_check_policy_func(USER_ALGO, default_policy.DEFAULT_CONFIG_CHECK_POLICY)
  for op in am.get_supported_ops(R.MINMAX):
    am.register_quantized_op(
        USER_ALGO, op, am.get_init_qsv_func(R.MINMAX, op),
        calibration_func=am.get_quantization_func(R.MINMAX, op, qtyping.QuantizeMode.CALIBRATE),
        materialize_func=am.get_quantization_func(R.MINMAX, op, qtyping.QuantizeMode.MATERIALIZE))


@st.composite
def cases(draw):
  n = draw(st.integers(1, 6))
  steps = []
  for _ in range(n):
    k = draw(st.integers(0, 10))
    if k == 10:
      # the advanced-usage form for operators without weights: activations only,
      # checks skipped (there is no policy entry without a weight config)
      r = R.rule(draw(st.sampled_from(c11.H_REGEX)),
                 draw(st.sampled_from(['*', 'ADD', 'MUL', 'TANH', 'INPUT', 'OUTPUT', 'SOFTMAX'])),
                 R.MINMAX, R.cfg(act=draw(st.sampled_from([[8, False], [8, True], [16, True]])),
                                 w=None, cp='INTEGER', skip=True))
      steps.append({'do': 'add', 'rule': r, 'enum': draw(st.booleans()), 'default_cfg_none': False})
    elif k <= 7:
      r = draw(c11.rule_specs())
      if draw(st.integers(0, 9)) == 0:
        r = R.rule(r['regex'], '*', r['algo'], dict(R.DEFAULT))
      if r['algo'] == R.NOQ and draw(st.booleans()):
        # a no_quantize rule may carry a config (update_quantization_recipe accepts one)
        r = R.rule(r['regex'], r['op'], R.NOQ, dict(draw(st.sampled_from(R.COMMON_CFGS))[1]))
        stars = [x['rule'] for x in steps if x['do'] == 'add' and x['rule']['op'] == '*' and x['rule']['algo'] != R.NOQ]
        if stars and r['op'] != '*' and draw(st.booleans()):
          # an opt-out for one op that re-uses the regex and config of the '*' rule
          r = R.rule(stars[-1]['regex'], r['op'], R.NOQ, dict(stars[-1]['cfg']))
      if r['algo'] == R.MINMAX and draw(st.integers(0, 7)) == 0:
        r = dict(r, algo=USER_ALGO)
      steps.append({'do': 'add', 'rule': r, 'enum': draw(st.booleans()),
                    'default_cfg_none': draw(st.integers(0, 5)) == 0})
    elif k == 8:
      steps.append({'do': 'load', 'rules': draw(st.lists(c11.rule_specs(), max_size=3))})
    else:
      # the recipe is looked at in the middle of the history
      steps.append({'do': 'export'})
  mspec = draw(G.model_specs(max_nodes=4, max_subgraphs=1))
  return {'steps': steps, 'model': mspec, 'calib_seed': draw(st.integers(0, 99))}


def _norm(recipe):
  return json.loads(json.dumps(recipe))


def build_recipe(qt, steps, notes=None):
  """Drive the API; refused/ill-formed steps are skipped (counted by the caller)."""
  n_ok = 0
  for s in steps:
    if s['do'] == 'export':
      qt.get_quantization_recipe()
      _ = qt.need_calibration
      continue
    if s['do'] == 'add':
      r = s['rule']
      try:
        cfg = R.make_config(r['cfg'])
      except ValueError:
        continue
      if s.get('default_cfg_none') and r['cfg'] == R.DEFAULT:
        cfg = None
      op = qtyping.TFLOperationName(r['op']) if s['enum'] else r['op']
      try:
        qt.update_quantization_recipe(r['regex'], op, cfg, r['algo'])
        n_ok += 1
      except ValueError:
        pass
      except Exception as e:  # pylint: disable=broad-except
        # a refusal of another type is C13's subject; here the step is simply refused
        if notes is not None:
          notes.append('step_refused_with:' + type(e).__name__)
    else:
      rules = []
      for r in s['rules']:
        try:
          R.make_config(r['cfg'])
        except ValueError:
          continue
        if r['algo'] != R.NOQ and r['cfg']['w'] is None:
          continue
        rules.append(R.rule_dict(r))
      try:
        qt.load_quantization_recipe(rules)
        n_ok += 1
      except ValueError:
        pass
      except Exception as e:  # pylint: disable=broad-except
        if notes is not None:
          notes.append('step_refused_with:' + type(e).__name__)
  return n_ok


def check_case(case):
  register_user_algorithm()
  model_bytes = G.build(case['model'])
  qt = quantizer_mod.Quantizer(model_bytes)
  notes = []
  build_recipe(qt, case['steps'], notes)
  recipe = qt.get_quantization_recipe()
  labels = ['rules=%d' % min(len(recipe), 6)] + sorted(set(notes))
  if any(str(getattr(e['algorithm_key'], 'value', e['algorithm_key'])) == USER_ALGO for e in recipe):
    labels.append('user_registered_algorithm')
  if any((e.get('op_config', {}).get('weight_tensor_config') or {}).get('block_size') for e in _norm(recipe)):
    labels.append('blockwise_block_size>0')
  if not recipe:
    return core.result(False, labels)
  try:
    text = json.dumps(recipe)
  except Exception as e:  # pylint: disable=broad-except
    raise Violation('recipe_not_json_serializable', repr(e))
  reloaded = json.loads(text)
  qt2 = quantizer_mod.Quantizer(model_bytes)
  ok, err = core.call(qt2.load_quantization_recipe, reloaded)
  if not ok:
    raise Violation('exported_recipe_does_not_load', '%r for %s' % (err, text[:600]))
  recipe2 = qt2.get_quantization_recipe()
  if _norm(recipe2) != _norm(recipe):
    raise Violation('reloaded_recipe_differs', 'exported %s reloaded %s' % (text[:500], json.dumps(recipe2)[:500]))
  for op in c11.Q_OPS:
    for scope in c11.Q_SCOPES:
      oka, a = core.call(qt._recipe_manager.get_quantization_configs, qtyping.TFLOperationName(op), scope)  # pylint: disable=protected-access
      okb, b = core.call(qt2._recipe_manager.get_quantization_configs, qtyping.TFLOperationName(op), scope)  # pylint: disable=protected-access
      if oka != okb or (not oka and type(a) is not type(b)):
        raise Violation('reloaded_recipe_resolves_differently',
                        'op=%s scope=%r: original %s, reloaded %s' % (op, scope, a if not oka else 'resolves', b if not okb else 'resolves'))
      if not oka:
        continue
      if str(getattr(a[0], 'value', a[0])) != str(getattr(b[0], 'value', b[0])) or a[1] != b[1]:
        raise Violation('reloaded_recipe_resolves_differently', 'op=%s scope=%r: %s vs %s' % (op, scope, a, b))
  # same model, same statistics -> byte-identical output
  calib = None
  if qt.need_calibration != qt2.need_calibration:
    raise Violation('need_calibration_differs', '')
  if qt.need_calibration:
    data = engine.calibration_data(case['model'], 0, [case['calib_seed']])
    ok, calib = core.call(qt.calibrate, data, case['model']['subgraphs'][0]['sig'])
    if not ok:
      return core.result(False, labels + ['raised:calibrate'])
  import copy
  ok1, r1 = core.call(qt.quantize, copy.deepcopy(calib))
  ok2, r2 = core.call(qt2.quantize, copy.deepcopy(calib))
  if ok1 != ok2:
    raise Violation('quantize_outcome_differs', 'original: %r reloaded: %r' % (r1, r2))
  if ok1:
    if bytes(r1.quantized_model) != bytes(r2.quantized_model):
      raise Violation('quantized_bytes_differ', '')
    labels.append('quantized_equal')
    # save() writes exactly that JSON next to the model
    d = tempfile.mkdtemp(prefix='vqc12_')
    try:
      r1.save(d, 'm')
      with open(os.path.join(d, 'm_recipe.json')) as f:
        saved = json.load(f)
      with open(os.path.join(d, 'm.tflite'), 'rb') as f:
        if f.read() != bytes(r1.quantized_model):
          raise Violation('saved_model_differs', '')
    finally:
      shutil.rmtree(d, ignore_errors=True)
    if saved != _norm(recipe):
      raise Violation('saved_recipe_differs', '')
  else:
    if type(r1) is not type(r2):
      raise Violation('quantize_outcome_differs', 'original: %r reloaded: %r' % (r1, r2))
    labels.append('both_raise')
  nt = len(recipe) >= 2 or any(
      e['op_config'].get('skip_checks') or e['op_config'].get('explicit_dequantize') or
      str(getattr(e['algorithm_key'], 'value', e['algorithm_key'])) != R.MINMAX for e in recipe)
  return core.result(nt, labels)


def shipped_files():
  d = os.path.join(core.REPO, 'ai_edge_quantizer', 'recipes')
  return sorted(f for f in os.listdir(d) if f.endswith('.json'))


def run_file(name):
  path = os.path.join(core.REPO, 'ai_edge_quantizer', 'recipes', name)
  with open(path) as f:
    content = json.load(f)
  qt = quantizer_mod.Quantizer(b'not-a-model')
  ok, err = core.call(qt.load_quantization_recipe, path)
  if not ok:
    raise Violation('shipped_recipe_does_not_load', '%s: %r' % (name, err))
  if name.startswith(('default_', 'dynamic_')):
    if _norm(qt.get_quantization_recipe()) != content:
      raise Violation('default_recipe_does_not_reexport_to_itself',
                      '%s: %s' % (name, json.dumps(qt.get_quantization_recipe())[:600]))
  # and through a round trip
  qt2 = quantizer_mod.Quantizer(b'not-a-model')
  ok, err = core.call(qt2.load_quantization_recipe, _norm(qt.get_quantization_recipe()))
  if not ok:
    raise Violation('exported_recipe_does_not_load', '%s: %r' % (name, err))
  if _norm(qt2.get_quantization_recipe()) != _norm(qt.get_quantization_recipe()):
    raise Violation('reloaded_recipe_differs', name)
  return core.result(True, ['file:' + name], key=name)


def phases(tier):
  k = float(os.environ.get('VERIF_SCALE', '1'))
  big = tier == 'thorough'
  return [
      {'name': 'shipped_files', 'kind': 'enum', 'items': shipped_files, 'run': run_file},
      {'name': 'roundtrip', 'kind': 'hyp', 'strategy': cases, 'run': check_case,
       'examples': int((160000 if big else 2500) * k)},
  ]
