"""C18 - validate() reports the true per-tensor error, once per tensor."""
import copy
import os

import numpy as np
from hypothesis import strategies as st

from ai_edge_quantizer import model_validator
from ai_edge_quantizer.utils import validation_utils

from vq import core, engine, fb, interp, kfpred
from vq.core import Violation
from vq.gen import graph as G
from vq.gen import recipes as R

META = {
    'level': 'exploration',
    'rule': ('Generated models x recipes x test data (1..3 samples per '
             'signature) x both metrics: validate() of the quantized model and '
             'compare_model(float, float). The check runs its own two '
             'interpreters per sample, dequantizes with its own code and '
             'computes the metric itself. Non-trivial = the quantized model has '
             '>= 1 integer tensor that also exists in the float model, >= 1 '
             'inserted tensor that does not, and >= 2 samples; plus generated '
             'array pairs for the metric laws; distinct by case hash.'),
    'assumptions': ['tensors are read through the interpreter (int4 constants as the interpreter exposes them)',
                    'documented NaN/inf sanitising replicated (nan->1e-9, +-inf->+-1e9, float32)'],
    
}


@st.composite
def cases(draw, tier):
  mspec = draw(G.model_specs(max_nodes=8 if tier == 'thorough' else 6, max_subgraphs=2,
                             reuse_const=True, ops=G.ALL_OPS + ['GATE'],   # GATE: a BOOL tensor
                             # degenerate constants (tiny / huge / zero tensors): bias codes
                             # beyond 32 bits, parameters at the ends of their ranges
                             wild_consts=draw(st.booleans())))
  names = engine.op_out_names(mspec)
  if draw(st.integers(0, 2)) == 0:
    recipe = {'kind': 'shipped', 'name': draw(st.sampled_from(engine.SHIPPED_NAMES))}
  else:
    recipe = {'kind': 'rules', 'rules': draw(R.rules_for(
        names, engine.ops_present(mspec), max_rules=3, cfg_pool=R.COMMON_CFGS,
        allow_skip=False))}
  return {'model': mspec, 'recipe': recipe, 'calib_seeds': [draw(st.integers(0, 99))],
          'test_seeds': [draw(st.integers(0, 999)) for _ in range(draw(st.integers(1, 3)))],
          'metric': draw(st.sampled_from(['mse', 'median_diff_ratio'])),
          'self_compare': draw(st.integers(0, 3)) == 0,
          'ref_kernel': draw(st.integers(0, 3)) == 0}


def sanitize(a):
  a = np.array(a, dtype=np.float32).flatten()
  return np.nan_to_num(a, nan=1e-9, neginf=-1e9, posinf=1e9)


def metric(name, target, ref):
  a, b = sanitize(target), sanitize(ref)
  if a.shape != b.shape:
    return None
  if a.size == 0:
    return 0.0
  if name == 'mse':
    return float(np.square(np.subtract(a, b)).mean())
  return float(np.median(np.abs(a - b) / (np.abs(b) + 1e-6)))


def own_comparison(ref_bytes, tgt_bytes, mspec, si, samples, metric_name, ref_kernel=False):
  """name -> mean metric over samples, from the check's own interpreter runs."""
  sg = mspec['subgraphs'][si]
  acc = {}
  for ins in samples:
    it_r, it_t = interp.make(ref_bytes, ref_kernel), interp.make(tgt_bytes, ref_kernel)
    _, rr = interp.run_signature(it_r, sg['sig'], ins)
    runner_t = it_t.get_signature_runner(sg['sig'])
    det = runner_t.get_input_details()
    runner_t(**{k: engine.quantize_like_tensor(v, det[k], narrow_if_symmetric=True) for k, v in ins.items()})
    tr = interp.all_tensors(it_r, interp.subgraph_index(rr))
    tt = interp.all_tensors(it_t, interp.subgraph_index(runner_t))
    for name, (v, d) in tr.items():
      if d['dtype'] == np.object_ or name not in tt:
        continue
      v2, d2 = tt[name]
      m = metric(metric_name, interp.dequant_detail(v2, d2), interp.dequant_detail(v, d))
      acc.setdefault(name, []).append(m)
  return {k: (None if any(x is None for x in v) else float(np.mean(v))) for k, v in acc.items()}


def check_case(case):
  mspec = case['model']
  if kfpred.unsafe_findings(case):
    # the quantized model would trigger a recorded runtime-UB finding (C06/C13 own
    # it); executing it in the worker could corrupt later cases
    return core.result(False, ['excluded:runtime_ub_finding'])
  out = engine.run(case)
  if out.stage == 'empty_recipe':
    return core.result(False, ['empty_recipe'])
  if not out.ok:
    return core.result(False, ['raised:' + str(out.stage)])
  labels = ['returned', 'metric:' + case['metric']]
  if engine.must_not_execute(case, out.qbytes):
    return core.result(False, labels + ['excluded:runtime_abort_finding'])
  test = {sg['sig']: [G.make_inputs(mspec, si, s) for s in case['test_seeds']]
          for si, sg in enumerate(mspec['subgraphs'])}
  try:
    interp.make(out.qbytes)
  except Exception:  # pylint: disable=broad-except
    return core.result(False, labels + ['interpreter_refuses(C01)'])
  rk = bool(case.get('ref_kernel'))
  if rk:
    labels.append('use_reference_kernel')
  tgt = out.model_bytes if case['self_compare'] else out.qbytes
  if case['self_compare']:
    labels.append('self_compare')
    call = lambda: model_validator.compare_model(
        out.model_bytes, out.model_bytes, copy.deepcopy(test), case['metric'],
        validation_utils.get_validation_func(case['metric']), rk)
  else:
    call = lambda: out.qt.validate(copy.deepcopy(test), case['metric'], rk)
  ok, res = core.call(call)
  if not ok:
    # invoking the quantized model may legitimately fail (C01's subject); a
    # failure inside the comparison itself is ours
    try:
      for si, sg in enumerate(mspec['subgraphs']):
        own_comparison(out.model_bytes, tgt, mspec, si, test[sg['sig']][:1], case['metric'], rk)
    except Exception:  # pylint: disable=broad-except
      return core.result(False, labels + ['model_not_invokable(C01)'])
    raise Violation('validate_raises:' + core.exc_bucket(res), repr(res)[:500])
  labels.append('validated')
  src = fb.parse(out.model_bytes)
  nt = False
  for si, sg in enumerate(mspec['subgraphs']):
    key = sg['sig']
    if key not in res.available_signature_keys():
      raise Violation('signature_missing_in_result', key)
    r = res.get_signature_comparison_result(key)
    groups = {'inputs': r.input_tensors, 'outputs': r.output_tensors,
              'constants': r.constant_tensors, 'intermediates': r.intermediate_tensors}
    want = own_comparison(out.model_bytes, tgt, mspec, si, test[key], case['metric'], rk)
    # the property is about the tensors of the two MODELS; temporaries the
    # interpreter creates at prepare time (e.g. BatchMatMul_scratch_buffer) hold
    # uninitialised data and are outside it
    model_names = ({t['name'] for t in src['subgraphs'][si]['tensors']} &
                   {t['name'] for t in fb.parse(tgt)['subgraphs'][si]['tensors']})
    want = {k: v for k, v in want.items() if k in model_names}
    seen = {}
    for g, d in groups.items():
      for name in d:
        if name not in model_names:
          labels.append('runtime_temporary_reported:ignored')
          continue
        if name in seen:
          raise Violation('tensor_reported_twice', '%s in %s and %s' % (name, seen[name], g))
        seen[name] = g
    if set(seen) != set(want):
      raise Violation('reported_tensor_set_differs',
                      'missing=%s unexpected=%s' % (sorted(set(want) - set(seen))[:5], sorted(set(seen) - set(want))[:5]))
    in_names = {sg['tensors'][t]['name'] for t in sg['inputs']}
    out_names = {sg['tensors'][t]['name'] for t in sg['outputs']}
    const_names = {t['name'] for t in sg['tensors'] if t['kind'] == 'const'}
    for name, g in seen.items():
      expect = ('inputs' if name in in_names else 'outputs' if name in out_names
                else 'constants' if name in const_names else 'intermediates')
      if g != expect:
        raise Violation('tensor_in_wrong_group', '%s filed under %s, is %s' % (name, g, expect))
      got, w = groups[g][name], want[name]
      if w is None:
        continue
      if not (np.isclose(got, w, rtol=1e-5, atol=1e-12) or (np.isnan(got) and np.isnan(w))):
        raise Violation('metric_value_differs',
                        '%s (%s): validate() %r, recomputed %r' % (name, g, got, w))
      if got < 0:
        raise Violation('metric_negative', '%s %r' % (name, got))
      if case['self_compare'] and got != 0:
        raise Violation('self_comparison_nonzero', '%s %r' % (name, got))
    if not case['self_compare'] and len(case['test_seeds']) >= 2:
      q = fb.parse(out.qbytes)['subgraphs'][si]
      n_src = len(src['subgraphs'][si]['tensors'])
      has_int = any(t['type'] in fb.INT_TYPES and t['scale'] is not None for t in q['tensors'][:n_src])
      nt = nt or (has_int and len(q['tensors']) > n_src)
  return core.result(nt, sorted(set(labels)))


# ---- metric laws on generated arrays --------------------------------------
@st.composite
def array_pairs(draw):
  n = draw(st.integers(0, 12))
  el = st.floats(width=32, allow_nan=True, allow_infinity=True) if draw(st.integers(0, 3)) == 0 \
      else st.floats(-1e3, 1e3, width=32)
  return {'a': [draw(el) for _ in range(n)], 'b': [draw(el) for _ in range(n)]}


def check_metric_laws(case):
  a, b = np.array(case['a'], np.float32), np.array(case['b'], np.float32)
  mse, mdr = validation_utils.mean_squared_difference, validation_utils.median_diff_ratio
  with np.errstate(all='ignore'):
    for f, name in ((mse, 'mse'), (mdr, 'median_diff_ratio')):
      v = f(a, b)
      w = metric(name, a, b)
      if not (v >= 0):
        raise Violation('metric_law_nonnegative', '%s(%s,%s)=%r' % (name, case['a'], case['b'], v))
      if f(a, a) != 0:
        raise Violation('metric_law_zero_on_equal', '%s(a,a)=%r for %s' % (name, f(a, a), case['a']))
      if not np.isclose(v, w, rtol=1e-6, atol=0, equal_nan=True):
        raise Violation('metric_law_value', '%s: %r vs %r' % (name, v, w))
    if mse(a, b) != mse(b, a):
      raise Violation('metric_law_mse_symmetric', '%r vs %r' % (mse(a, b), mse(b, a)))
  return core.result(a.size >= 2, ['n=%d' % min(a.size, 4)])


from vq import kfpred
kf_dw_drq_tensorwise = kfpred.dw_drq_tensorwise


def phases(tier):
  k = float(os.environ.get('VERIF_SCALE', '1'))
  big = tier == 'thorough'
  return [
      {'name': 'validate', 'kind': 'hyp', 'strategy': lambda: cases(tier),
       'run': check_case, 'examples': int((40000 if big else 700) * k)},
      {'name': 'metric_laws', 'kind': 'hyp', 'strategy': array_pairs,
       'run': check_metric_laws, 'examples': int((100000 if big else 4000) * k)},
  ]
