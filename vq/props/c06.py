"""C06 - float-compute modes equal the float model run with dequantized constants."""
import os

import numpy as np
from hypothesis import strategies as st

from vq import core, engine, fb, interp
from vq.core import Violation
from vq.gen import graph as G
from vq.gen import recipes as R
from vq.ref import optable, skeleton

META = {
    'level': 'exploration',
    'rule': ('Generated float models x recipes using only weight-only, fp16 '
             'and dynamic-range rules (4/8 bit, sym/asym, per-tensor/'
             'per-channel, uniform or per-op mixed; a third of the models are '
             'FULLY_CONNECTED graphs sharing one weight whose sharers get '
             'different treatments of one storage width) x random inputs. The '
             'quantized model is run in the interpreter and compared (i) end '
             'to end with a reference program = source model with every '
             'rewritten constant replaced by its independently dequantized '
             'value (graphs without dynamic-range ops), and (ii) operator by '
             'operator: every original op is re-executed as a single-op float '
             'model on the inputs it actually saw; float ops must agree to '
             'float32 rounding, dynamic-range ops within max|x|/254 * '
             'max_j sum_k|w_jk|. Non-trivial = >= 1 constant rewritten '
             '(dependence of the output on it is confirmed by perturbation on '
             'a sample); distinct by case hash.'),
    'assumptions': ['LiteRT float kernels are the reference semantics of each op',
                    'runtime dynamic-range kernels quantize activations symmetrically to 8 bit per batch (asymmetricQuantizeInputs=False)'],
    'low_yield': {'label': 'returned', 'floor': 0.6},
}

TT = fb.TT
Q, DQ = fb.OP_CODE['QUANTIZE'], fb.OP_CODE['DEQUANTIZE']
RTOL = 2e-5


@st.composite
def cases(draw, tier):
  pop = draw(st.integers(0, 5))
  if pop <= 1:
    # every weight-carrying op of one shape re-uses the same constant
    mspec = draw(G.model_specs(max_nodes=4, min_nodes=2, max_subgraphs=1,
                               reuse_const=True, reuse_odds=0, dim_choices=[4],
                               export_prob=False,
                               ops=['FULLY_CONNECTED'] * 4 + ['TANH', 'ADD']))
  elif pop == 2:
    # chains of weight-carrying ops with few distinct sizes: weights re-used by
    # several consumers with other rewritten ops in between
    mspec = draw(G.model_specs(max_nodes=10 if tier == 'thorough' else 6, min_nodes=3,
                               max_subgraphs=1, reuse_const=True, reuse_odds=1,
                               dim_choices=[4], export_prob=False,
                               ops=['FULLY_CONNECTED', 'FULLY_CONNECTED', 'BATCH_MATMUL',
                                    'TANH', 'ADD', 'RELU']))
  else:
    mspec = draw(G.model_specs(max_nodes=10 if tier == 'thorough' else 6,
                               max_subgraphs=2, reuse_const=True))
  names = engine.op_out_names(mspec)
  groups = G.sharer_groups(mspec, min_rank=2) or G.sharer_groups(mspec)
  if groups and (pop <= 1 or draw(st.integers(0, 2))):
    # the consumers of one shared constant get individually drawn float-compute
    # treatments (accepted only if compatible; then the model must still compute
    # what its stored constants say)
    import re as _re
    rules = []
    if draw(st.integers(0, 2)) == 0:
      algo, c = draw(st.sampled_from(R.FLOAT_COMPUTE_CFGS))
      rules.append(R.rule('.*', '*', algo, dict(c)))
    # treatments of one storage width: mixing widths on one constant is a type
    # conflict (C01/C15's subject); equal widths with different parameters or
    # modes is the numeric question this property asks
    bits = draw(st.sampled_from([8, 8, 4]))
    pool = draw(st.permutations([ac for ac in R.FLOAT_COMPUTE_CFGS if ac[1]['w'][0] in (bits, 16)] +
                                [(R.NOQ, R.DEFAULT)]))
    grp = draw(st.permutations(draw(st.sampled_from(groups))))
    # two (sometimes three) sharers get different treatments, the others stay
    # as the base rule (or float) leaves them
    for k, out_name in enumerate(grp[:draw(st.sampled_from([2, 2, 2, 3]))]):
      algo, c = pool[k]
      rules.append(R.rule('^' + _re.escape(out_name) + ';', '*', algo, dict(c)))
  elif draw(st.integers(0, 1)):
    algo, c = draw(st.sampled_from(R.FLOAT_COMPUTE_CFGS))
    rules = [R.rule('.*', '*', algo, dict(c))]
  else:
    rules = draw(R.rules_for(names, engine.ops_present(mspec), max_rules=4,
                             cfg_pool=R.FLOAT_COMPUTE_CFGS, allow_skip=False))
  return {'model': mspec, 'recipe': {'kind': 'rules', 'rules': rules},
          'calib_seeds': [0],
          'input_seeds': [draw(st.integers(0, 999)) for _ in range(draw(st.integers(1, 2)))]}


def _drq_bound(op, node, xmax, w_real, adj_y=False, w_pos=1):
  """max|x|/254 * max_j sum_k |w_jk| for the op's weight layout."""
  a = np.abs(np.asarray(w_real, np.float64))
  if op == 'FULLY_CONNECTED':
    s = a.sum(axis=1).max()
  elif op in ('CONV_2D', 'TRANSPOSE_CONV'):
    s = a.sum(axis=(1, 2, 3)).max()
  elif op == 'DEPTHWISE_CONV_2D':
    s = a.sum(axis=(0, 1, 2)).max()
  elif op == 'BATCH_MATMUL':
    if w_pos == 1:
      s = a.sum(axis=-1 if adj_y else -2).max()
    else:
      s = a.sum(axis=-1).max()
  else:
    s = a.sum()
  return xmax / 254.0 * s * 1.02 + 1e-6


def check_case(case):
  """Cases that would trigger a recorded runtime-UB finding run in a throw-away
  process, so that they cannot corrupt the worker for later cases."""
  from vq import isolated
  u = kfpred.unsafe_findings(case)
  if not u or os.environ.get('VQ_ISOLATED_CHILD'):
    return check_inproc(case)
  if not kfpred.take_isolation_budget(u, per_finding=3):
    return core.result(False, ['execution_excluded:' + x for x in u])
  os.environ['VQ_ISOLATED_CHILD'] = '1'
  try:
    status, r = isolated.run('vq.props.c06', 'check_inproc', case)
  finally:
    os.environ.pop('VQ_ISOLATED_CHILD', None)
  if status == 'violation':
    raise r
  if status == 'abort':
    raise Violation('runtime_abort', 'interpreter died with signal %s on a model matching %s' % (r, u))
  r['labels'] = list(r['labels']) + ['isolated:' + x for x in u]
  return r


def check_inproc(case):
  out = engine.run(case)
  labels = []
  if out.stage == 'empty_recipe':
    return core.result(False, ['empty_recipe'])
  if not out.ok:
    return core.result(False, ['raised:%s:%s' % (out.stage, core.exc_bucket(out.exc))])
  labels.append('returned')
  mspec = case['model']
  src, res = fb.parse(out.model_bytes), fb.parse(out.qbytes)
  try:
    ms = skeleton.match(src, res)
  except Violation as v:
    return core.result(False, labels + ['skeleton_mismatch(C02):' + v.tag])
  # which mode did the recipe select for each op (reference resolution)
  from vq.ref import plan
  rp = plan.resolve_model(mspec, plan.ref_recipe(case, out))
  # decode every rewritten constant independently
  overrides, n_rewritten = {}, 0
  for si, (m, sg, og) in enumerate(zip(ms, src['subgraphs'], res['subgraphs'])):
    for ti in range(m.n_src_tensors):
      s_t, a_t = sg['tensors'][ti], og['tensors'][ti]
      if fb.is_const(src, s_t) and (a_t['type'] != s_t['type'] or a_t['scale'] is not None):
        try:
          overrides[s_t['name']] = np.asarray(fb.tensor_real_values(res, si, ti), np.float32)
        except Exception as e:  # malformed storage is C05's subject
          return core.result(False, labels + ['undecodable_constant(C05)'])
        n_rewritten += 1
  try:
    it_q = interp.make(out.qbytes)
  except Exception as e:  # pylint: disable=broad-except
    return core.result(False, labels + ['interpreter_refuses(C01):' + core.norm_msg(e, 50)])
  it_f = interp.make(G.build(mspec, overrides=overrides))
  has_drq = False
  for seed in case['input_seeds']:
    for si, sgs in enumerate(mspec['subgraphs']):
      ins = G.make_inputs(mspec, si, seed)
      try:
        out_q, run_q = interp.run_signature(it_q, sgs['sig'], ins)
      except Exception as e:  # pylint: disable=broad-except
        return core.result(False, labels + ['interpreter_refuses(C01):' + core.norm_msg(e, 50)])
      out_f, run_f = interp.run_signature(it_f, sgs['sig'], ins)
      tq = interp.all_tensors(it_q, interp.subgraph_index(run_q))
      tf_ = interp.all_tensors(it_f, interp.subgraph_index(run_f))
      if not all(np.all(np.isfinite(v)) for v, _ in tf_.values() if v.dtype.kind == 'f'):
        labels.append('nonfinite_reference:skipped')
        continue
      drq_here = _per_op(si, sgs, ms[si], src['subgraphs'][si], res, tq, labels,
                         [p.mode for p in rp[si]['ops']])
      has_drq = has_drq or drq_here
      if not drq_here:
        amax = max([float(np.max(np.abs(v))) for v, _ in tf_.values() if v.dtype.kind == 'f' and v.size] + [0.0])
        for k in out_f:
          d = float(np.max(np.abs(out_q[k].astype(np.float64) - out_f[k].astype(np.float64)))) if out_f[k].size else 0.0
          if d > 1e-4 * (1 + amax):
            raise Violation('end_to_end_differs',
                            'sg%d output %s: max|quantized - reference| = %.4g, allowed %.4g (max activation %.4g)' % (
                                si, k, d, 1e-4 * (1 + amax), amax))
        labels.append('e2e_compared')
  labels.append('has_drq' if has_drq else 'no_drq')
  if n_rewritten and int(core.spec_hash(case), 16) % 8 == 0:
    # confirm the outputs depend on the rewritten constants
    pert = {k: v * 1.5 + 0.25 for k, v in overrides.items()}
    it_p = interp.make(G.build(mspec, overrides=pert))
    changed = False
    for si, sgs in enumerate(mspec['subgraphs']):
      ins = G.make_inputs(mspec, si, case['input_seeds'][0])
      a, _ = interp.run_signature(it_f, sgs['sig'], ins)
      b, _ = interp.run_signature(it_p, sgs['sig'], ins)
      changed = changed or any(not np.array_equal(a[k], b[k]) for k in a)
    labels.append('dependence_confirmed' if changed else 'dependence_not_observed')
  return core.result(n_rewritten > 0, sorted(set(labels)))


def _per_op(si, sgs, m, sg_src, res, tq, labels, modes):
  """Re-execute every original op as a single-op float model on what it saw."""
  og = res['subgraphs'][si]
  prod = fb.producers(og)
  any_drq = False
  order = G.emit_order(sgs)
  for k, ni in enumerate(order):
    node = sgs['nodes'][ni]
    oop = og['ops'][m.op_of[k]]
    const_vals, feeds, drq_w = {}, {}, None
    for pos, ta in enumerate(oop['inputs']):
      if ta < 0:
        continue
      a_t = og['tensors'][ta]
      if fb.is_const(res, a_t):
        real = fb.tensor_real_values(res, si, ta)
        if a_t['type'] in fb.INT_TYPES and a_t['scale'] is not None:
          drq_w = (pos, real)  # integer constant read directly: dynamic-range execution
        const_vals[pos] = np.asarray(real, np.float32 if a_t['type'] not in (TT.INT32, TT.INT64) or a_t['scale'] is not None else np.int32)
      else:
        if a_t['name'] not in tq:
          return any_drq
        v, d = tq[a_t['name']]
        feeds[pos] = v
        # an inserted DEQUANTIZE must output the independently dequantized constant
        pr = prod.get(ta, [])
        if pr and og['ops'][pr[0]]['code'] == DQ:
          c_idx = og['ops'][pr[0]]['inputs'][0]
          if fb.is_const(res, og['tensors'][c_idx]):
            want = np.asarray(fb.tensor_real_values(res, si, c_idx), np.float64)
            if want.shape == v.shape and not np.allclose(v, want, rtol=1e-5, atol=1e-7 * (1 + np.max(np.abs(want)))):
              raise Violation('dequantize_output_differs',
                              'sg%d op%d %s input %d: DEQUANTIZE output differs from the decoded constant by %.4g' % (
                                  si, k, node['op'], pos, float(np.max(np.abs(v - want)))))
    spec1, feed_pos = G.single_op_spec(sgs, node, const_vals)
    try:
      it1 = interp.make(G.build(spec1))
    except Exception as e:  # pylint: disable=broad-except
      raise core.HarnessError('single-op reference model failed: %s %r' % (node['op'], e))
    sg1 = spec1['subgraphs'][0]
    ins = {G.arg_name(sg1, j, True): feeds[p] for j, p in enumerate(feed_pos)}
    ref, _ = interp.run_signature(it1, 'serving_default', ins)
    xmax = max([float(np.max(np.abs(v))) for v in feeds.values() if v.dtype.kind == 'f' and v.size] + [0.0])
    for j, ta in enumerate(oop['outputs']):
      name = og['tensors'][ta]['name']
      if name not in tq:
        continue
      got = tq[name][0].astype(np.float64)
      want = ref[G.arg_name(sg1, j, False)].astype(np.float64)
      if not np.all(np.isfinite(want)):
        continue
      d = float(np.max(np.abs(got - want))) if want.size else 0.0
      scale_ = 1 + float(np.max(np.abs(want))) if want.size else 1.0
      if drq_w is not None and node['op'] != 'EMBEDDING_LOOKUP' and modes[k] == 'drq':
        # only an op the recipe put in dynamic-range mode may use the
        # activation-quantization allowance; weight-only / fp16 / unselected
        # ops must agree to float rounding however they are wired
        any_drq = True
        bound = _drq_bound(node['op'], node, xmax, drq_w[1],
                           adj_y=bool(node.get('opts', {}).get('adjY')), w_pos=drq_w[0]) + RTOL * scale_
        if d > bound:
          raise Violation('dynamic_range_op_outside_bound',
                          'sg%d op%d %s: |out - float op with dequantized weights| = %.4g > bound %.4g (max|x|=%.4g)' % (
                              si, k, node['op'], d, bound, xmax), data={'op': node['op'], 'si': si, 'k': k})
        labels.append('drq_op_checked')
      else:
        if d > RTOL * scale_ * 5:
          raise Violation('float_op_differs',
                          'sg%d op%d %s output %d: differs from the float op on the same inputs by %.4g' % (
                              si, k, node['op'], j, d), data={'op': node['op'], 'si': si, 'k': k})
  return any_drq


from vq import kfpred


def _op_specific(pred, op):
  """The finding must be about the operator the violation names (when it names one)."""
  def f(case, violation):
    d = getattr(violation, 'data', None)
    if isinstance(d, dict) and d.get('op') and d['op'] != op:
      return False
    return pred(case, violation)
  return f


kf_dw_drq_tensorwise = _op_specific(kfpred.dw_drq_tensorwise, 'DEPTHWISE_CONV_2D')
kf_emb_int4_odd_width = _op_specific(kfpred.emb_int4_odd_width, 'EMBEDDING_LOOKUP')
kf_bmm_drq_multibatch = _op_specific(kfpred.bmm_drq_multibatch, 'BATCH_MATMUL')


def phases(tier):
  k = float(os.environ.get('VERIF_SCALE', '1'))
  big = tier == 'thorough'
  return [
      {'name': 'float_compute', 'kind': 'hyp', 'strategy': lambda: cases(tier),
       'run': check_case, 'examples': int((100000 if big else 3000) * k)},
  ]
