"""C04 - quantization parameters equal the TFLite-spec reference for the stats and config."""
import os

import numpy as np
from hypothesis import strategies as st

from vq import core, engine, fb
from vq.core import Violation
from vq.gen import graph as G
from vq.gen import recipes as R
from vq.ref import optable, plan, quantspec as QS, skeleton

META = {
    'level': 'exploration',
    'rule': ('Generated models x static and weight-quantizing recipes x '
             'statistics that are either check-constructed for every runtime '
             'tensor (incl. constant, one-sided, tiny <=1e-6 and huge >=1e30 '
             'ranges) or obtained from calibrate(). Every quantized operand of '
             'every original operator is compared with an independent '
             're-derivation (reference formulas in float64 + effective-'
             'statistics propagation through same-scale, concatenation and '
             'fixed-range ops + bias rule + per-channel axis table). '
             'Non-trivial = >= 2 statically quantized ops of which >= 1 is a '
             'constraint op (same-scale, concatenation, fixed-range) or a '
             'biased FC/conv; distinct by case hash.'),
    'assumptions': ['scales are stored as float32: compared with rtol 3e-6; a zero point may differ by 1 only within 2e-3 of a rounding tie',
                    'statistics returned by calibrate() are taken as given (their correctness is C09)',
                    'for BATCH_MATMUL the per-channel axis is the library\'s documented rule'],
    'low_yield': {'label': 'returned', 'floor': 0.6},
}
TT = fb.TT
BITS_OF = {TT.INT4: 4, TT.INT8: 8, TT.INT16: 16, TT.INT32: 32, TT.INT64: 64}
Q, DQ = fb.OP_CODE['QUANTIZE'], fb.OP_CODE['DEQUANTIZE']


@st.composite
def cases(draw, tier):
  mspec = draw(G.model_specs(max_nodes=10 if tier == 'thorough' else 7, max_subgraphs=2,
                             wild_consts=draw(st.booleans())))
  names = engine.op_out_names(mspec)
  k = draw(st.integers(0, 3))
  if k == 0:
    recipe = {'kind': 'shipped', 'name': draw(st.sampled_from(engine.SHIPPED_NAMES))}
  elif k == 1:
    algo, c = draw(st.sampled_from(R.STATIC_CFGS))
    recipe = {'kind': 'rules', 'rules': [R.rule('.*', '*', algo, dict(c))]}
  else:
    recipe = {'kind': 'rules', 'rules': draw(R.rules_for(
        names, engine.ops_present(mspec), max_rules=4,
        cfg_pool=R.STATIC_CFGS * 2 + R.FLOAT_COMPUTE_CFGS, allow_skip=False))}
  case = {'model': mspec, 'recipe': recipe, 'calib_seeds': [draw(st.integers(0, 99)) for _ in range(draw(st.integers(1, 2)))],
          'input_seed': 0}
  if draw(st.booleans()):
    case['stats'] = {'seed': draw(st.integers(0, 9999)), 'wild': draw(st.booleans()),
                     # overall magnitude of the constructed ranges (small ones give
                     # scales near 1e-8)
                     'mag': draw(st.sampled_from([1.0, 1.0, 1.0, 1e-2, 1e-3, 3e-4, 3e-4]))}
  draw(engine.usage_dimensions(case))
  return case


def _stat(q):
  return float(np.asarray(q['min']).reshape(-1)[0]), float(np.asarray(q['max']).reshape(-1)[0])


def _cfgt(t):
  return t.num_bits, bool(t.symmetric), str(getattr(t.granularity, 'value', t.granularity))


class Expect:
  def __init__(self, scale, exact_zp, bits, qdim=None, why=''):
    self.scale, self.exact, self.bits, self.qdim, self.why = scale, exact_zp, bits, qdim, why


def _cmp(t, e, where):
  """Stored parameters of tensor dict t vs expectation e."""
  if t['scale'] is None:
    raise Violation('expected_quantized_tensor_has_no_params', where)
  if BITS_OF.get(t['type']) != e.bits:
    raise Violation('quantized_tensor_bit_width', '%s: %s, expected %d bit' % (where, fb.TYPE_NAME.get(t['type']), e.bits))
  if not QS.scales_match(t['scale'], e.scale):
    raise Violation('scale_differs_from_reference',
                    '%s: stored %s, reference %s (%s)' % (where, t['scale'][:3], np.asarray(e.scale).reshape(-1)[:3].tolist(), e.why))
  zp = t['zp'] if t['zp'] is not None else [0] * len(t['scale'])
  if not QS.zps_match(zp, e.exact):
    raise Violation('zero_point_differs_from_reference',
                    '%s: stored %s, reference %s (%s)' % (where, zp[:3], np.asarray(e.exact).reshape(-1)[:3].tolist(), e.why))
  if len(t['scale']) > 1 and e.qdim is not None and t['qdim'] != e.qdim:
    raise Violation('quantized_dimension_differs', '%s: stored %d, kernel expects %d' % (where, t['qdim'], e.qdim))


def check_case(case):
  out = engine.run(case)
  if out.stage == 'empty_recipe':
    return core.result(False, ['empty_recipe'])
  if not out.ok:
    return core.result(False, ['raised:%s:%s' % (out.stage, core.exc_bucket(out.exc)[:70])])
  labels = ['returned', 'stats:' + ('constructed' if case.get('stats') else 'calibrated')]
  src, res = fb.parse(out.model_bytes), fb.parse(out.qbytes)
  try:
    ms = skeleton.match(src, res)
  except Violation as v:
    return core.result(False, labels + ['skeleton_mismatch(C02):' + v.tag])
  rp = plan.resolve_model(case['model'], plan.ref_recipe(case, out))
  calib = out.calib or {}
  n_srq, n_constraint = 0, 0
  weight_tensors = {}  # (si, out tensor index) -> expected qdim
  for si, (m, sgs, sg, og) in enumerate(zip(ms, case['model']['subgraphs'], src['subgraphs'], res['subgraphs'])):
    eff = {name: _stat(q) for name, q in calib.items() if 'min' in q and 'max' in q and np.asarray(q['min']).size == 1}
    prod = fb.producers(og)
    consts = {}

    def cvals(ti):
      if ti not in consts:
        consts[ti] = fb.tensor_constant(src, si, ti).astype(np.float64)
      return consts[ti]

    def act_expect(name, abits, asym, why):
      if name not in eff:
        return None
      s, ex, _ = QS.params_from_min_max(eff[name][0], eff[name][1], abits, asym)
      return Expect(s, ex, abits, None, why)

    def const_expect(ti, bits, sym, axis, why):
      v = cvals(ti)
      if axis is None or v.ndim == 0:
        mn, mx = v.min(), v.max()
      else:
        axes = tuple(i for i in range(v.ndim) if i != axis)
        mn, mx = v.min(axis=axes), v.max(axis=axes)
      s, ex, _ = QS.params_from_min_max(mn, mx, bits, sym)
      return Expect(s, ex, bits, axis, why)

    for k, p in enumerate(rp[si]['ops']):
      node = sgs['nodes'][p.node_index]
      sop, oop = sg['ops'][k], og['ops'][m.op_of[k]]
      where0 = 'sg%d op%d %s(%s)' % (si, k, p.op, p.mode)
      if p.mode in ('none', 'invalid', 'fp16'):
        continue
      w = p.cfg.weight_tensor_config
      wbits, wsym, wgran = _cfgt(w) if w is not None else (None, None, None)

      def weight_axis(ti):
        if wgran != 'CHANNELWISE':
          return None
        if p.op == 'BATCH_MATMUL':
          rank = len(sg['tensors'][ti]['shape'])
          return rank - 2 if node.get('opts', {}).get('adjY') else rank - 1
        return optable.WEIGHT_QDIM.get(p.op)

      if p.mode in ('drq', 'wo'):
        for pos, (ts, ta) in enumerate(zip(sop['inputs'], oop['inputs'])):
          if ts < 0 or not fb.is_const(src, sg['tensors'][ts]) or sg['tensors'][ts]['type'] != TT.FLOAT32:
            continue
          if optable.role(p.op, pos, True) != 'weight':
            continue
          if len(fb.consumers(sg).get(ts, [])) > 1 or sgs['tensors'][ts].get('share') is not None:
            labels.append('shared_constant:params_not_judged')
            continue
          t_c = og['tensors'][ta]
          if p.mode == 'wo':
            pr = prod.get(ta, [])
            if not pr or og['ops'][pr[0]]['code'] != DQ:
              continue  # C03's subject
            t_c = og['tensors'][og['ops'][pr[0]]['inputs'][0]]
          e = const_expect(ts, wbits, wsym, weight_axis(ts), 'true min/max of the constant, %d bit %s %s' % (wbits, 'sym' if wsym else 'asym', wgran))
          _cmp(t_c, e, '%s weight input %d %s' % (where0, pos, t_c['name']))
          weight_tensors[(si, t_c['name'])] = e.qdim
          labels.append('weight_checked:' + p.mode)
        continue
      # ---- static range
      n_srq += 1
      a = p.cfg.activation_tensor_config
      abits, asym = a.num_bits, bool(a.symmetric)
      in_exp, out_exp = {}, {}
      fl_in = [(pos, ts) for pos, ts in enumerate(sop['inputs'])
               if ts >= 0 and sg['tensors'][ts]['type'] == TT.FLOAT32 and optable.role(p.op, pos, False) != 'index']
      fl_out = [(pos, ts) for pos, ts in enumerate(sop['outputs']) if sg['tensors'][ts]['type'] == TT.FLOAT32]
      name = lambda ts: sg['tensors'][ts]['name']
      isc = lambda ts: fb.is_const(src, sg['tensors'][ts])
      skip_op = False
      for pos, ts in fl_in:
        if isc(ts) and (len(fb.consumers(sg).get(ts, [])) > 1 or sgs['tensors'][ts].get('share') is not None):
          skip_op = True
      if skip_op:
        labels.append('shared_constant:params_not_judged')
        # statistics still propagate
      if p.op in optable.SAME_SCALE_AS_INPUT:
        n_constraint += 1
        ipos = optable.SAME_SCALE_AS_INPUT[p.op]
        its = sop['inputs'][ipos]
        e = (const_expect(its, abits, asym, None, 'constant input') if isc(its)
             else act_expect(name(its), abits, asym, 'statistics of input %s' % name(its)))
        in_exp[ipos] = e
        for pos, ts in fl_out:
          out_exp[pos] = e and Expect(e.scale, e.exact, e.bits, None, 'same as input (%s is a same-scale op)' % p.op)
          if name(its) in eff:
            eff[name(ts)] = eff[name(its)]
      elif p.op == 'CONCATENATION':
        n_constraint += 1
        ots = sop['outputs'][0]
        e = act_expect(name(ots), abits, asym, 'statistics of the concatenation output')
        out_exp[0] = e
        for pos, ts in fl_in:
          in_exp[pos] = e and Expect(e.scale, e.exact, e.bits, None, 'same as the concatenation output')
      else:
        for pos, ts in fl_in:
          role = optable.role(p.op, pos, isc(ts))
          if role == 'bias':
            continue
          if isc(ts) and p.op in optable.WEIGHT_POS:
            in_exp[pos] = const_expect(ts, wbits, wsym, weight_axis(ts), 'true min/max of the weights')
            weight_tensors[(si, name(ts))] = in_exp[pos].qdim
          elif isc(ts):
            in_exp[pos] = const_expect(ts, abits, asym, None, 'true min/max of the constant operand')
          else:
            in_exp[pos] = act_expect(name(ts), abits, asym, 'statistics of %s' % name(ts))
        for pos, ts in fl_out:
          if p.op in optable.FIXED_OUTPUT:
            n_constraint += 1
            sc, zp = optable.FIXED_OUTPUT[p.op][abits]
            out_exp[pos] = Expect(np.array([sc]), np.array([float(zp)]), abits, None, 'range fixed by the runtime kernel')
            fsym = (abits == 16)
            eff[name(ts)] = QS.min_max_of_params(sc, zp, abits, asym)
          else:
            out_exp[pos] = act_expect(name(ts), abits, asym, 'statistics of %s' % name(ts))
        if p.op in optable.BIAS_POS and optable.BIAS_POS[p.op] < len(sop['inputs']) and sop['inputs'][optable.BIAS_POS[p.op]] >= 0:
          n_constraint += 1
          bpos = optable.BIAS_POS[p.op]
          dpos = optable.DATA_POS.get(p.op, 0)
          e_in, e_w = in_exp.get(dpos), in_exp.get(optable.WEIGHT_POS[p.op])
          if e_in is not None and e_w is not None:
            s = np.asarray(e_in.scale, np.float64).reshape(-1)[0] * np.asarray(e_w.scale, np.float64).reshape(-1)
            in_exp[bpos] = Expect(s, np.zeros_like(s), 64 if abits == 16 else 32, 0, 'input scale x weight scale')
      if skip_op:
        continue
      for pos, ts in [(pos, ts) for pos, ts in enumerate(sop['inputs']) if pos in in_exp]:
        if in_exp[pos] is None:
          labels.append('no_statistics_for_operand')
          continue
        t_a = og['tensors'][oop['inputs'][pos]]
        if pos == optable.BIAS_POS.get(p.op):
          # stored bias scale is float32(product of float32 scales): 2 roundings
          e = in_exp[pos]
          if t_a['scale'] is None or not QS.scales_match(t_a['scale'], e.scale, rtol=1e-5):
            raise Violation('bias_scale_not_input_times_weight',
                            '%s bias %s: stored %s, input scale x weight scale = %s' % (where0, t_a['name'], (t_a['scale'] or [])[:3], e.scale[:3].tolist()))
          if any(z != 0 for z in (t_a['zp'] or [])):
            raise Violation('bias_zero_point_nonzero', '%s bias %s' % (where0, t_a['name']))
          if BITS_OF.get(t_a['type']) != e.bits:
            raise Violation('bias_bit_width', '%s bias is %s' % (where0, fb.TYPE_NAME.get(t_a['type'])))
          continue
        _cmp(t_a, in_exp[pos], '%s input %d %s' % (where0, pos, t_a['name']))
      for pos, e in out_exp.items():
        if e is None:
          labels.append('no_statistics_for_operand')
          continue
        t_a = og['tensors'][oop['outputs'][pos]]
        _cmp(t_a, e, '%s output %d %s' % (where0, pos, t_a['name']))
      labels.append('srq_op_checked')
    # ---- graph inputs / outputs under INPUT / OUTPUT rules
    for kind, key in (('inputs', 'input'), ('outputs', 'output')):
      algo, cfg, mode = rp[si][key]
      if mode != 'srq':
        continue
      a = cfg.activation_tensor_config
      for pos, t in enumerate(og[kind]):
        s_t = sg['tensors'][sg[kind][pos]]
        if s_t['type'] != TT.FLOAT32:
          continue
        e = act_expect(s_t['name'], a.num_bits, bool(a.symmetric), 'statistics of graph %s %s' % (key, s_t['name']))
        if e is None:
          continue
        _cmp(og['tensors'][t], e, 'sg%d graph %s[%d] %s' % (si, kind, pos, og['tensors'][t]['name']))
        labels.append('io_checked')
    # ---- every quantized tensor: sanity of its parameters
    bias_names = set()
    for k2, p2 in enumerate(rp[si]['ops']):
      bp = optable.BIAS_POS.get(p2.op)
      if bp is not None and bp < len(sg['ops'][k2]['inputs']) and sg['ops'][k2]['inputs'][bp] >= 0:
        bias_names.add(sg['tensors'][sg['ops'][k2]['inputs'][bp]]['name'])
    for ti, t in enumerate(og['tensors']):
      if t['scale'] is None:
        continue
      wh = 'sg%d t%d %s' % (si, ti, t['name'])
      sc = np.asarray(t['scale'], np.float64)
      zp = np.asarray(t['zp'] if t['zp'] is not None else [], np.int64)
      if not np.all(np.isfinite(sc)) or np.any(sc <= 0):
        raise Violation('scale_not_finite_positive', '%s %s' % (wh, t['scale'][:3]))
      if zp.size != sc.size:
        raise Violation('scale_zero_point_length', '%s %d vs %d' % (wh, sc.size, zp.size))
      if t['type'] in fb.INT_RANGE:
        lo, hi = fb.INT_RANGE[t['type']]
        if zp.size and (zp.min() < lo or zp.max() > hi):
          raise Violation('zero_point_out_of_range', '%s zp %s for %s' % (wh, t['zp'][:3], fb.TYPE_NAME.get(t['type'])))
      if sc.size > 1:
        if not t['shape'] or t['qdim'] >= len(t['shape']) or t['shape'][t['qdim']] != sc.size:
          raise Violation('per_channel_length', '%s: %d scales, shape %s qdim %d' % (wh, sc.size, t['shape'], t['qdim']))
        if t['name'] in bias_names:
          if t['qdim'] != 0:
            raise Violation('per_channel_on_unexpected_tensor', '%s bias qdim %d' % (wh, t['qdim']))
        elif (si, t['name']) in weight_tensors:
          if weight_tensors[(si, t['name'])] is not None and weight_tensors[(si, t['name'])] != t['qdim']:
            raise Violation('quantized_dimension_differs', '%s qdim %d, kernel expects %s' % (wh, t['qdim'], weight_tensors[(si, t['name'])]))
        elif not any(l.startswith('shared_constant') for l in labels):
          raise Violation('per_channel_on_unexpected_tensor', '%s has %d scales but is not a weight operand' % (wh, sc.size))
  labels.append('srq_ops=%d' % min(n_srq, 6))
  return core.result(n_srq >= 2 and n_constraint >= 1, sorted(set(labels)))


def phases(tier):
  k = float(os.environ.get('VERIF_SCALE', '1'))
  big = tier == 'thorough'
  return [
      {'name': 'params', 'kind': 'hyp', 'strategy': lambda: cases(tier),
       'run': check_case, 'examples': int((150000 if big else 3000) * k)},
  ]
