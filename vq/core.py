"""Shared types for property modules: violations, exception bucketing, calls."""
import hashlib
import json
import os
import re
import traceback

import numpy as np

REPO = os.environ.get('VERIF_REPO', '/repo')
VERIF = os.path.dirname(os.path.dirname(os.path.abspath(__file__)))


class Violation(Exception):
  """The property under test does not hold for this case."""

  def __init__(self, tag, message='', data=None):
    super().__init__('%s: %s' % (tag, message))
    self.tag = tag
    self.message = message
    self.data = data


class HarnessError(Exception):
  """The harness (generator/oracle) is broken; never a verdict."""


def jdefault(o):
  if isinstance(o, np.ndarray):
    return o.tolist()
  if isinstance(o, (np.integer,)):
    return int(o)
  if isinstance(o, (np.floating,)):
    return float(o)
  if isinstance(o, (bytes, bytearray)):
    return {'__bytes__': bytes(o).hex()}
  if isinstance(o, (set, frozenset)):
    return sorted(o)
  if hasattr(o, 'value') and isinstance(getattr(o, 'value'), (str, int)):
    return o.value
  return repr(o)


def jdump(o, **kw):
  return json.dumps(o, default=jdefault, sort_keys=True, **kw)


def spec_hash(spec):
  return hashlib.sha1(jdump(spec).encode()).hexdigest()[:16]


_NUM = re.compile(r'\d+')
_QUOTED = re.compile(r"""b?'[^']*'|b?"[^"]*\"""")


def norm_msg(msg, n=70):
  return _NUM.sub('N', _QUOTED.sub('S', str(msg)))[:n]


def exc_bucket(exc):
  """(type, innermost ai_edge_quantizer frame, normalised message head)."""
  frame = '?'
  tb = traceback.extract_tb(exc.__traceback__)
  for fr in tb:
    if 'ai_edge_quantizer' in fr.filename:
      frame = '%s:%s' % (os.path.basename(fr.filename), fr.name)
  msg = norm_msg(exc)
  return '%s@%s|%s' % (type(exc).__name__, frame, msg)


def call(fn, *a, **kw):
  """Call code under test; returns (True, value) or (False, exception)."""
  try:
    return True, fn(*a, **kw)
  except (KeyboardInterrupt, SystemExit, MemoryError):
    raise
  except Exception as e:  # pylint: disable=broad-except
    return False, e


def result(nontrivial=False, labels=(), key=None, info=None):
  return {'nontrivial': bool(nontrivial), 'labels': list(labels), 'key': key,
          'info': info}
