"""One shard of one property check.  Run as: python -m vq.worker ARGS(json)."""
import collections
import importlib
import json
import os
import sys
import time
import traceback

import hypothesis
from hypothesis import HealthCheck, Phase, given, settings
from hypothesis import strategies as st

from vq import core, known

MAX_BUCKETS_SHRUNK = 3
MAX_SAMPLES = 6


def derive_seed(seed, shard, phase_index, salt=0):
  return (seed * 1000003 + shard * 7919 + phase_index * 101 + salt * 13) % (2**62)


class PhaseStats:

  def __init__(self, name):
    self.name = name
    self.evaluations = 0
    self.nontrivial = set()
    self.labels = collections.Counter()
    self.samples = []
    self.failures = {}  # bucket -> dict(spec, message, tag)
    self.known = collections.Counter()
    self.invalid = 0

  def to_json(self):
    return {'name': self.name, 'evaluations': self.evaluations,
            'nontrivial': sorted(self.nontrivial),
            'labels': dict(self.labels), 'samples': self.samples,
            'failures': self.failures, 'known': dict(self.known),
            'invalid': self.invalid}


def _settings(n, shrink, extra=None):
  kw = dict(max_examples=max(1, n), deadline=None, database=None,
            derandomize=False, report_multiple_bugs=False, print_blob=False,
            suppress_health_check=[HealthCheck.too_slow,
                                   HealthCheck.data_too_large,
                                   HealthCheck.large_base_example],
            phases=([Phase.generate, Phase.shrink] if shrink
                    else [Phase.generate]))
  if extra:
    kw.update(extra)
  return settings(**kw)


class Runner:
  """Executes cases of a phase, classifies outcomes."""

  def __init__(self, prop_id, stats, cur_file):
    self.prop_id = prop_id
    self.stats = stats
    self.cur_file = cur_file

  def note_current(self, spec):
    if self.cur_file:
      with open(self.cur_file, 'w') as f:
        f.write(core.jdump({'phase': self.stats.name, 'spec': spec}))

  def execute(self, run, spec, only_bucket=None, record=True):
    """Returns the failure bucket (str) or None."""
    st_ = self.stats
    self.note_current(spec)
    try:
      res = run(spec)
    except core.Violation as v:
      bucket = '%s:%s' % (st_.name, v.tag)
      kf = known.match(self.prop_id, st_.name, v, spec)
      if kf is not None:
        if record:
          st_.evaluations += 1
          st_.known[kf] += 1
        return None
      if record:
        st_.evaluations += 1
        st_.labels['VIOLATION:' + v.tag] += 1
        if bucket not in st_.failures:
          st_.failures[bucket] = {'spec': spec, 'message': v.message[:2000],
                                  'tag': v.tag, 'phase': st_.name,
                                  'shrunk': False}
      if only_bucket is None or only_bucket == bucket:
        return bucket
      return None
    if record:
      st_.evaluations += 1
      if res is None:
        res = core.result()
      for l in res['labels']:
        st_.labels[l] += 1
      for fid, n in (res.get('known') or {}).items():
        st_.known[fid] += n
      if res['nontrivial']:
        k = res['key'] or core.spec_hash(spec)
        if k not in st_.nontrivial:
          st_.nontrivial.add(k)
          if len(st_.samples) < MAX_SAMPLES:
            st_.samples.append(spec)
      elif not st_.samples:
        st_.samples.append(spec)
    return None


def run_hyp_phase(prop_id, ph, idx, ctx, stats, runner):
  n = max(1, ph['examples'] // ctx['nshards'])
  sd = derive_seed(ctx['seed'], ctx['shard'], idx)
  strategy = ph['strategy']()
  run = ph['run']

  @hypothesis.seed(sd)
  @_settings(n, shrink=False, extra=ph.get('settings'))
  @given(strategy)
  def collect(spec):
    runner.execute(run, spec)
  collect()

  for fl in stats.failures.values():
    fl['shard'] = ctx['shard']


def shrink_bucket(prop_id, ph, idx, ctx, stats, runner, bucket):
  """Re-run the shard that found `bucket` with the same seed, raising only for
  that bucket, so that Hypothesis shrinks it. Returns the minimal failing spec."""
  n = max(1, ph['examples'] // ctx['nshards'])
  sd = derive_seed(ctx['seed'], ctx['shard'], idx)
  strategy = ph['strategy']()
  run = ph['run']
  last = {}

  @hypothesis.seed(sd)
  @_settings(n, shrink=True, extra=ph.get('settings'))
  @given(strategy)
  def shrink(spec):
    b = runner.execute(run, spec, only_bucket=bucket, record=False)
    if b is not None:
      last['spec'] = spec
      with open(ctx['out'] + '.partial', 'w') as f:
        f.write(core.jdump({'spec': spec}))
      raise AssertionError(bucket)
  try:
    shrink()
  except AssertionError:
    pass
  except Exception:  # flaky etc.: keep what we have
    pass
  if 'spec' not in last:
    return None
  try:
    run(last['spec'])
  except core.Violation as v:
    if '%s:%s' % (stats.name, v.tag) == bucket:
      return {'spec': last['spec'], 'message': v.message[:2000]}
  except Exception:
    pass
  return None


def run_enum_phase(prop_id, ph, idx, ctx, stats, runner):
  items = ph['items']()
  run = ph['run']
  for k, spec in enumerate(items):
    if k % ctx['nshards'] != ctx['shard']:
      continue
    runner.execute(run, spec)


def run_stateful_phase(prop_id, ph, idx, ctx, stats, runner):
  from hypothesis.stateful import run_state_machine_as_test
  n = max(1, ph['examples'] // ctx['nshards'])
  sd = derive_seed(ctx['seed'], ctx['shard'], idx)
  sink = {'stats': stats, 'runner': runner, 'fail': None}
  machine = ph['machine'](sink)
  st_kw = dict(stateful_step_count=ph.get('steps', 20))
  st_kw.update(ph.get('settings') or {})
  try:
    run_state_machine_as_test(
        hypothesis.seed(sd)(machine),
        settings=_settings(n, shrink=True, extra=st_kw))
  except core.Violation as v:
    hist = sink.get('history')
    bucket = '%s:%s' % (stats.name, v.tag)
    stats.labels['VIOLATION:' + v.tag] += 1
    kf = known.match(prop_id, stats.name, v, hist)
    if kf is not None:
      stats.known[kf] += 1
    else:
      stats.failures[bucket] = {'spec': hist, 'message': v.message[:2000],
                                'tag': v.tag, 'phase': stats.name,
                                'shrunk': True}


def main():
  ctx = json.loads(sys.argv[1])
  t0 = time.time()
  out = {'shard': ctx['shard'], 'phases': [], 'error': None}
  try:
    mod = importlib.import_module('vq.props.' + ctx['prop'].lower())
    phases = mod.phases(ctx['tier'])
    only = ctx.get('only_phase')
    for idx, ph in enumerate(phases):
      if only and ph['name'] != only:
        continue
      stats = PhaseStats(ph['name'])
      runner = Runner(ctx['prop'], stats, ctx.get('cur_file'))
      kind = ph.get('kind', 'hyp')
      if ctx.get('shrink_bucket'):
        res = shrink_bucket(ctx['prop'], ph, idx, ctx, stats, runner, ctx['shrink_bucket'])
        out['shrunk'] = res
      elif kind == 'hyp':
        run_hyp_phase(ctx['prop'], ph, idx, ctx, stats, runner)
      elif kind == 'enum':
        run_enum_phase(ctx['prop'], ph, idx, ctx, stats, runner)
      elif kind == 'stateful':
        run_stateful_phase(ctx['prop'], ph, idx, ctx, stats, runner)
      else:
        raise core.HarnessError('unknown phase kind %r' % kind)
      out['phases'].append(stats.to_json())
  except BaseException as e:  # pylint: disable=broad-except
    out['error'] = ''.join(traceback.format_exception(type(e), e, e.__traceback__))[-6000:]
  out['wall_s'] = time.time() - t0
  with open(ctx['out'], 'w') as f:
    f.write(core.jdump(out))
  if ctx.get('cur_file') and os.path.exists(ctx['cur_file']):
    os.remove(ctx['cur_file'])
  sys.exit(0 if out['error'] is None else 2)


if __name__ == '__main__':
  main()
