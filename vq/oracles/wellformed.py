"""Structural well-formedness of a TFLite model (C01), from the raw parse."""
from vq import fb
from vq.core import Violation

Q, DQ = fb.OP_CODE['QUANTIZE'], fb.OP_CODE['DEQUANTIZE']


def check(model, src=None):
  """model/src: fb.parse() dicts of the returned and the source model."""
  nb, nc = len(model['buffers']), len(model['opcodes'])
  names = {}
  # -1 operands are only legal where the source model had them
  allowed_missing = {}
  if src is not None:
    for sg in src['subgraphs']:
      for op in sg['ops']:
        for pos, t in enumerate(op['inputs']):
          if t == -1:
            k = (op['code'], pos)
            allowed_missing[k] = allowed_missing.get(k, 0) + 1
  seen_missing = {}
  for si, sg in enumerate(model['subgraphs']):
    nt = len(sg['tensors'])
    for ti, t in enumerate(sg['tensors']):
      if not 0 <= t['buffer'] < nb:
        raise Violation('buffer_index_out_of_range', 'sg%d t%d buffer=%d of %d' % (si, ti, t['buffer'], nb))
      if t['name'] in names:
        raise Violation('duplicate_tensor_name', '%r is tensor %s and sg%d t%d' % (t['name'], names[t['name']], si, ti))
      names[t['name']] = 'sg%d t%d' % (si, ti)
    for t in sg['inputs'] + sg['outputs']:
      if not 0 <= t < nt:
        raise Violation('graph_io_index_out_of_range', 'sg%d io=%d of %d' % (si, t, nt))
    produced = {}
    available = set(sg['inputs'])
    for ti, t in enumerate(sg['tensors']):
      if fb.is_const(model, t):
        available.add(ti)
    for oi, op in enumerate(sg['ops']):
      if not 0 <= op['opcode_index'] < nc:
        raise Violation('opcode_index_out_of_range', 'sg%d op%d index=%d of %d' % (si, oi, op['opcode_index'], nc))
      for pos, t in enumerate(op['inputs']):
        if t == -1:
          k = (op['code'], pos)
          seen_missing[k] = seen_missing.get(k, 0) + 1
          if src is not None and seen_missing[k] > allowed_missing.get(k, 0):
            raise Violation('unexpected_missing_operand', 'sg%d op%d %s input %d' % (si, oi, fb.OP_NAME.get(op['code']), pos))
          continue
        if not 0 <= t < nt:
          raise Violation('tensor_index_out_of_range', 'sg%d op%d input=%d of %d' % (si, oi, t, nt))
        if t not in available:
          raise Violation('invalid_execution_order',
                          'sg%d op%d (%s) reads t%d (%s) before it is produced' % (
                              si, oi, fb.OP_NAME.get(op['code']), t, sg['tensors'][t]['name']))
      for t in op['outputs']:
        if not 0 <= t < nt:
          raise Violation('tensor_index_out_of_range', 'sg%d op%d output=%d of %d' % (si, oi, t, nt))
        if t in produced:
          raise Violation('multiple_producers', 'sg%d t%d produced by op%d and op%d' % (si, t, produced[t], oi))
        if t in sg['inputs']:
          raise Violation('graph_input_has_producer', 'sg%d t%d' % (si, t))
        if fb.is_const(model, sg['tensors'][t]):
          raise Violation('constant_has_producer', 'sg%d t%d' % (si, t))
        produced[t] = oi
        available.add(t)
    for t in sg['outputs']:
      if t not in available:
        raise Violation('graph_output_never_produced', 'sg%d t%d' % (si, t))
  for s in model['signatures']:
    if not 0 <= s['subgraph'] < len(model['subgraphs']):
      raise Violation('signature_subgraph_out_of_range', str(s))
    nt = len(model['subgraphs'][s['subgraph']]['tensors'])
    for name, ti in s['inputs'] + s['outputs']:
      if not 0 <= ti < nt:
        raise Violation('signature_tensor_out_of_range', '%s -> %d of %d' % (name, ti, nt))


def inserted_ops(model, src):
  """Per subgraph: indices of QUANTIZE/DEQUANTIZE ops beyond the source's."""
  out = []
  for si, sg in enumerate(model['subgraphs']):
    src_n = 0
    if src is not None and si < len(src['subgraphs']):
      src_n = sum(1 for o in src['subgraphs'][si]['ops'] if o['code'] in (Q, DQ))
    ins = [oi for oi, o in enumerate(sg['ops']) if o['code'] in (Q, DQ)]
    out.append(ins if src_n == 0 else ins[:max(0, len(ins) - src_n)])
  return out
