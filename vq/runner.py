"""Parent process of a check: shards, merges, writes evidence and replays."""
import argparse
import collections
import importlib
import json
import os
import shutil
import subprocess
import sys
import time

VERIF = os.path.dirname(os.path.dirname(os.path.abspath(__file__)))
PY = '/venv/bin/python'


def child_env():
  env = dict(os.environ)
  repo = env.get('VERIF_REPO', '/repo')
  env['PYTHONPATH'] = repo + os.pathsep + VERIF
  env['PYTHONHASHSEED'] = '0'
  env['TF_CPP_MIN_LOG_LEVEL'] = '3'
  env['AI_EDGE_QUANTIZER_VERIF'] = '1'
  env['VERIF_REPO'] = repo
  env.setdefault('OMP_NUM_THREADS', '1')
  env.setdefault('TF_NUM_INTEROP_THREADS', '1')
  env.setdefault('TF_NUM_INTRAOP_THREADS', '1')
  return env


def _short(spec, limit=4000):
  s = json.dumps(spec, default=str, sort_keys=True)
  if len(s) <= limit:
    return spec
  return {'truncated_json': s[:limit]}


def run_replay(prop, path):
  """Re-run one saved case through its oracle, no Hypothesis involved."""
  code = (
      'import json,sys,importlib\n'
      'from vq import core, known\n'
      'r=json.load(open(sys.argv[2]))\n'
      'mod=importlib.import_module("vq.props."+sys.argv[1].lower())\n'
      'ph=[p for p in mod.phases(r.get("tier","quick")) if p["name"]==r["phase"]][0]\n'
      'fn=ph.get("replay") or ph["run"]\n'
      'try:\n'
      '  fn(r["spec"])\n'
      'except core.Violation as v:\n'
      '  kf=known.match(sys.argv[1], r["phase"], v, r["spec"])\n'
      '  print("REPLAY-KNOWN "+kf if kf else "REPLAY-VIOLATION "+v.tag+" :: "+v.message[:1500])\n'
      '  sys.exit(0 if kf else 1)\n'
      'print("REPLAY-OK")\n')
  p = subprocess.run([PY, '-c', code, prop, path], env=child_env(), cwd=VERIF,
                     capture_output=True, text=True)
  out = [l for l in p.stdout.splitlines() if l.startswith('REPLAY-')]
  if p.returncode == 0:
    return 'ok', (out[-1] if out else '')
  if p.returncode == 1 and out:
    return 'violation', out[-1]
  return 'error', (p.stderr or p.stdout)[-3000:]


def main(argv=None):
  ap = argparse.ArgumentParser()
  ap.add_argument('prop')
  ap.add_argument('--tier', default=os.environ.get('VERIF_TIER', 'quick'),
                  choices=['quick', 'thorough'])
  ap.add_argument('--replay')
  ap.add_argument('--shards', type=int,
                  default=int(os.environ.get('VERIF_SHARDS', '0')) or min(16, os.cpu_count() or 1))
  ap.add_argument('--phase', default=None)
  ap.add_argument('--scale', type=float,
                  default=float(os.environ.get('VERIF_SCALE', '1')))
  args = ap.parse_args(argv)
  prop = args.prop.upper()
  seed = int(os.environ.get('VERIF_SEED', '1'))
  t0 = time.time()

  if args.replay:
    status, msg = run_replay(prop, os.path.abspath(args.replay))
    print(msg)
    if status == 'violation':
      print('VIOLATION property=%s replay=%s' % (prop, os.path.abspath(args.replay)))
      return 1
    return 0 if status == 'ok' else 2

  meta = _load_meta(prop)
  out_base = os.environ.get('VERIF_OUT')  # scratch runs (mutants) write elsewhere
  work = os.path.join(out_base or os.path.join(VERIF, '.work'), 'work' if out_base else '', prop)
  shutil.rmtree(work, ignore_errors=True)
  os.makedirs(work, exist_ok=True)
  found_dir = os.path.join(out_base, 'found') if out_base else os.path.join(VERIF, 'replays', 'found')
  evidence_dir = os.path.join(out_base, 'evidence') if out_base else os.path.join(VERIF, 'evidence')
  os.makedirs(found_dir, exist_ok=True)

  violations = []   # (path, text)
  known_hits = collections.Counter()
  harness_errors = []

  # 1. regression replays committed for this property
  reg_dir = os.path.join(VERIF, 'replays', prop)
  n_replayed = 0
  if os.path.isdir(reg_dir) and not args.phase:
    files = sorted(f for f in os.listdir(reg_dir) if f.endswith('.json'))
    procs = []
    from concurrent.futures import ThreadPoolExecutor
    with ThreadPoolExecutor(max_workers=args.shards) as ex:
      results = list(ex.map(lambda f: run_replay(prop, os.path.join(reg_dir, f)), files))
    for f, (status, msg) in zip(files, results):
      n_replayed += 1
      if status == 'violation':
        violations.append((os.path.join(reg_dir, f), msg))
      elif status == 'error':
        harness_errors.append('replay %s: %s' % (f, msg))
      elif msg.startswith('REPLAY-KNOWN'):
        known_hits[msg.split()[1]] += 1

  # 2. generated search, sharded
  procs = []
  env = child_env()
  env['VERIF_SCALE'] = str(args.scale)
  for sh in range(args.shards):
    ctx = {'prop': prop, 'tier': args.tier, 'seed': seed, 'shard': sh,
           'nshards': args.shards, 'out': os.path.join(work, 'shard%d.json' % sh),
           'cur_file': os.path.join(work, 'current%d.json' % sh),
           'only_phase': args.phase}
    log = open(os.path.join(work, 'shard%d.log' % sh), 'w')
    p = subprocess.Popen([PY, '-m', 'vq.worker', json.dumps(ctx)], env=env,
                         cwd=VERIF, stdout=log, stderr=subprocess.STDOUT)
    procs.append((sh, p, ctx, log))

  merged = collections.OrderedDict()
  for sh, p, ctx, log in procs:
    rc = p.wait()
    log.close()
    if rc < 0 or not os.path.exists(ctx['out']):
      cur = ctx['cur_file']
      detail = 'shard %d died rc=%s' % (sh, rc)
      if os.path.exists(cur) and rc < 0:
        # the process was killed while executing a case
        with open(cur) as f:
          c = json.load(f)
        if meta.get('abort_is_violation'):
          path = os.path.join(found_dir, '%s-abort-%d.json' % (prop, sh))
          with open(path, 'w') as f:
            json.dump({'property': prop, 'phase': c['phase'], 'tier': args.tier,
                       'spec': c['spec'], 'tag': 'process_abort',
                       'message': detail}, f)
          violations.append((path, 'process abort (signal %s)' % (-rc)))
          continue
      with open(os.path.join(work, 'shard%d.log' % sh)) as f:
        harness_errors.append(detail + '\n' + f.read()[-3000:])
      continue
    with open(ctx['out']) as f:
      res = json.load(f)
    if res.get('error'):
      harness_errors.append('shard %d: %s' % (sh, res['error']))
    for ph in res['phases']:
      m = merged.setdefault(ph['name'], {
          'evaluations': 0, 'nontrivial': set(), 'labels': collections.Counter(),
          'samples': [], 'failures': {}, 'known': collections.Counter(),
          'invalid': 0})
      m['evaluations'] += ph['evaluations']
      m['nontrivial'].update(ph['nontrivial'])
      m['labels'].update(ph['labels'])
      m['known'].update(ph['known'])
      if len(m['samples']) < 6:
        m['samples'].extend(ph['samples'][:2])
      for b, fl in ph['failures'].items():
        old = m['failures'].get(b)
        if old is None or (len(json.dumps(fl['spec'], default=str)) <
                           len(json.dumps(old['spec'], default=str))):
          m['failures'][b] = fl

  # shrink: once per distinct bucket, in parallel, under a time cap
  todo = []
  for name, m in merged.items():
    for b, fl in m['failures'].items():
      if 'shard' in fl and len(todo) < 8:
        todo.append((name, b, fl))
  cap = float(os.environ.get('VERIF_SHRINK_S', '600' if args.tier == 'thorough' else '150'))
  sprocs = []
  for k, (name, b, fl) in enumerate(todo):
    ctx = {'prop': prop, 'tier': args.tier, 'seed': seed, 'shard': fl['shard'],
           'nshards': args.shards, 'out': os.path.join(work, 'shrink%d.json' % k),
           'cur_file': None, 'only_phase': name, 'shrink_bucket': b}
    log = open(os.path.join(work, 'shrink%d.log' % k), 'w')
    sp = subprocess.Popen([PY, '-m', 'vq.worker', json.dumps(ctx)], env=env,
                          cwd=VERIF, stdout=log, stderr=subprocess.STDOUT)
    sprocs.append((sp, ctx, fl, log))
  t_shrink = time.time()
  for sp, ctx, fl, log in sprocs:
    try:
      sp.wait(timeout=max(1.0, cap - (time.time() - t_shrink)))
    except subprocess.TimeoutExpired:
      sp.kill()
      sp.wait()
    log.close()
    got = None
    if os.path.exists(ctx['out']):
      with open(ctx['out']) as f:
        got = json.load(f).get('shrunk')
    elif os.path.exists(ctx['out'] + '.partial'):
      with open(ctx['out'] + '.partial') as f:
        got = {'spec': json.load(f)['spec'], 'message': fl['message'], 'partial': True}
    if got:
      fl['spec'] = got['spec']
      fl['message'] = got['message']
      fl['shrunk'] = 'partial' if got.get('partial') else True

  for name, m in merged.items():
    known_hits.update(m['known'])
    for b, fl in m['failures'].items():
      import hashlib
      h = hashlib.sha1(json.dumps([b, fl['spec']], sort_keys=True, default=str).encode()).hexdigest()[:10]
      path = os.path.join(found_dir, '%s-%s.json' % (prop, h))
      with open(path, 'w') as f:
        json.dump({'property': prop, 'phase': fl['phase'], 'tier': args.tier,
                   'tag': fl['tag'], 'message': fl['message'],
                   'shrunk': fl.get('shrunk'), 'seed': seed,
                   'spec': fl['spec']}, f, indent=1, default=str)
      violations.append((path, '%s: %s' % (b, fl['message'][:300])))

  # 3. evidence
  total_eval = sum(m['evaluations'] for m in merged.values()) + n_replayed
  total_nt = sum(len(m['nontrivial']) for m in merged.values())
  samples = []
  for name, m in merged.items():
    for s in m['samples'][:3]:
      samples.append({'phase': name, 'case': _short(s)})
  labels = {name: dict(sorted(m['labels'].items())) for name, m in merged.items()}
  ev = {
      'property_id': prop, 'tier': args.tier, 'seed': seed,
      'level': meta.get('level', 'exploration'),
      'coverage': {
          'evaluations': int(total_eval),
          'distinct_nontrivial': int(total_nt),
          'rule': meta.get('rule', ''),
          'samples': samples[:8] or [{'note': 'no case executed'}],
          'exhaustive': bool(meta.get('exhaustive', {}).get(args.tier, False)),
          'per_phase': {name: {'evaluations': m['evaluations'],
                               'distinct_nontrivial': len(m['nontrivial'])}
                        for name, m in merged.items()},
          'labels': labels,
          'regression_replays_run': n_replayed,
          'known_findings_hit': dict(known_hits),
          'shards': args.shards,
      },
      'assumptions': meta.get('assumptions', []),
      'wall_s': round(time.time() - t0, 2),
      'violations': len(violations),
  }
  if harness_errors:
    ev['coverage']['harness_errors'] = [e[-1500:] for e in harness_errors[:3]]
  os.makedirs(evidence_dir, exist_ok=True)
  with open(os.path.join(evidence_dir, prop + '.json'), 'w') as f:
    json.dump(ev, f, indent=1, default=str)

  # 4. report
  from vq import known
  for fid, n in sorted(known_hits.items()):
    print('KNOWN-FINDING: property=%s %s [%s, %d cases]' % (prop, known.text(fid), fid, n))
  for name, m in merged.items():
    print('phase %-18s evaluations=%d nontrivial=%d' % (name, m['evaluations'], len(m['nontrivial'])))
  print('%s tier=%s seed=%d evaluations=%d distinct_nontrivial=%d wall=%.1fs' % (
      prop, args.tier, seed, total_eval, total_nt, time.time() - t0))
  low = meta.get('low_yield')
  if low:
    for name, m in merged.items():
      ok = sum(v for k, v in m['labels'].items() if k == low['label'])
      if m['evaluations'] and ok / m['evaluations'] < low['floor']:
        print('LOW-YIELD: phase %s: %s on %d of %d cases' % (name, low['label'], ok, m['evaluations']))
  if harness_errors:
    for e in harness_errors[:3]:
      print('HARNESS-ERROR: ' + e[-3000:], file=sys.stderr)
    if not violations:
      return 2
  for path, text in violations:
    print('  ' + text.replace('\n', ' ')[:400])
    print('VIOLATION property=%s replay=%s' % (prop, path))
  if violations:
    return 1
  return 0


def _load_meta(prop):
  code = ('import json,importlib,sys\n'
          'm=importlib.import_module("vq.props."+sys.argv[1].lower())\n'
          'print("META "+json.dumps(getattr(m,"META",{})))\n')
  p = subprocess.run([PY, '-c', code, prop], env=child_env(), cwd=VERIF,
                     capture_output=True, text=True)
  for l in p.stdout.splitlines():
    if l.startswith('META '):
      return json.loads(l[5:])
  return {}


if __name__ == '__main__':
  sys.exit(main())
